#!/bin/sh
# Offline setup: nothing is compiled.  Verifies the interpreter the repo is
# installed into can import the working tree and the check's dependencies.
set -e
cd "$(dirname "$0")"
PY=/venv/bin/python
$PY -W ignore - <<'PYEOF'
import os, sys
import numpy, netCDF4
import PseudoNetCDF
src = os.path.realpath(os.path.dirname(os.path.dirname(PseudoNetCDF.__file__)))
assert src == os.path.realpath('/repo/src'), src
print('PseudoNetCDF', PseudoNetCDF.__version__, 'from', src, '| numpy', numpy.__version__, '| netCDF4', netCDF4.__version__)
PYEOF
$PY -c "import jsonschema" 2>/dev/null || $PY -m pip install -q --no-index --find-links /opt/veriftools/wheels jsonschema >/dev/null 2>&1 || echo "jsonschema not installable (evidence is still written; validation skipped)"
mkdir -p evidence replays
echo setup ok
