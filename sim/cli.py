"""check CLI:  ./check <ID> --tier quick|thorough [--replay PATH] [--seed N]

exit 0  property held on everything explored (KNOWN-FINDING lines allowed)
exit 1  VIOLATION property=<ID> replay=<path>   (not in known_findings.json)
exit 2  harness error (worker crash, wall timeout, nondeterminism)
"""
import argparse
import json
import os
import sys
import time

sys.path.insert(0, os.path.dirname(os.path.dirname(os.path.abspath(__file__))))

from sim.core import batch  # noqa: E402
from sim.core.world import canon  # noqa: E402
from sim.props import PROPS  # noqa: E402

VERIF = batch.VERIF


def log(*a):
    print(*a, flush=True)


def write_evidence(prop, ev):
    d = os.path.join(VERIF, 'evidence')
    os.makedirs(d, exist_ok=True)
    p = os.path.join(d, '%s.json' % prop)
    # The file describes THIS run.  The last run of the other tier (as the file
    # it replaces recorded it) is carried along under 'previous_runs', labelled
    # as such, so that a quick run does not erase the record of a thorough one.
    try:
        with open(p) as f:
            old = json.load(f)
        prev = dict(old.get('previous_runs') or {})
        oc = old.get('coverage') or {}
        prev[old.get('tier', '?')] = {
            'note': 'summary of an earlier run of this check, copied from the evidence file '
                    'that this run replaced; not measured by this run',
            'seed': old.get('seed'), 'wall_s': old.get('wall_s'),
            'violations': old.get('violations'),
            'runs': oc.get('runs'), 'runs_ok': oc.get('runs_ok'),
            'runs_error': oc.get('runs_error'),
            'evaluations': oc.get('evaluations'),
            'distinct_traces': oc.get('distinct_traces'),
            'distinct_nontrivial': oc.get('distinct_nontrivial'),
            'faults_fired': oc.get('faults_fired'),
            'known_findings_matched': oc.get('known_findings_matched'),
            'determinism_selfcheck': oc.get('determinism_selfcheck'),
            'workers': oc.get('workers'), 'hash_seeds': oc.get('hash_seeds')}
        prev.pop(ev.get('tier'), None)
        if prev:
            ev['previous_runs'] = prev
    except Exception:
        pass
    tmp = p + '.tmp'
    with open(tmp, 'w') as f:
        json.dump(ev, f, indent=1, sort_keys=True)
    os.replace(tmp, p)
    try:
        import jsonschema
        sch = '/root/.vp/EVIDENCE.schema.json'
        if os.path.exists(sch):
            jsonschema.validate(ev, json.load(open(sch)))
    except ImportError:
        pass
    except Exception as e:
        log('HARNESS-ERROR evidence does not validate: %s' % str(e)[:300])


def replay_path(prop, seed, tag=''):
    d = os.path.join(VERIF, 'replays', prop)
    os.makedirs(d, exist_ok=True)
    return os.path.join(d, '%s%s.json' % (seed, tag))


def do_replay(prop, spec, path):
    with open(path) as f:
        rp = json.load(f)
    z = batch.Zygote(rp.get('hashseed', 0))
    try:
        job = {'harness': rp['harness'], 'seed': rp['seed'],
               'tier': rp.get('tier', 'quick'),
               'cpu_s': spec.get('cpu_s', 120), 'wall_s': spec.get('wall_s', 600),
               'replay': {'config': rp['config'], 'ops': rp['ops']},
               'known': rp.get('inrun_known') or [],
               'want_events': True}
        r = z.run(job)
    finally:
        z.close()
    if r.get('status') != 'ok':
        log('HARNESS-ERROR replay status=%s %s' % (r.get('status'),
                                                   r.get('error', '')))
        if r.get('traceback'):
            log(r['traceback'])
        return 2
    v = r.get('violation')
    log('replay digest=%s recorded=%s' % (r['digest'], rp.get('digest')))
    if os.environ.get('VERIF_SHOW_EVENTS'):
        for e in r.get('events', []):
            log('  ', e[:400])
    if v is None:
        kh = (r.get('stats') or {}).get('known_hits') or {}
        kn = batch.load_known()
        for kid, h in sorted(kh.items()):
            kf = [k for k in kn if k.get('id') == kid]
            log('KNOWN-FINDING: property=%s %s [met %d times on this schedule and continued '
                'past, as in the recorded run]' % (
                    prop, kf[0].get('what', kid) if kf else kid, h.get('n', 0)))
        log('replay: no violation (property held on this schedule)')
        return 0
    log('replay: %s at step %s: %s' % (v['invariant'], v['step'], v['detail']))
    k = batch.match_known(prop, v, batch.load_known())
    if k is not None:
        log('KNOWN-FINDING: property=%s %s' % (prop, k.get('what', '')))
        return 0
    log('VIOLATION property=%s replay=%s' % (prop, path))
    return 1


def main(argv=None):
    ap = argparse.ArgumentParser()
    ap.add_argument('prop')
    ap.add_argument('--tier', default=os.environ.get('VERIF_TIER', 'quick'),
                    choices=['quick', 'thorough'])
    ap.add_argument('--replay')
    ap.add_argument('--seed', type=int, default=None)
    ap.add_argument('--runs', type=int, default=None)
    ap.add_argument('--workers', type=int, default=None)
    ap.add_argument('--no-evidence', action='store_true')
    ap.add_argument('--keep-going', action='store_true')
    a = ap.parse_args(argv)
    prop = a.prop
    if prop not in PROPS:
        log('unknown property %s (claimed: %s)' % (prop, ' '.join(sorted(PROPS))))
        return 2
    spec = PROPS[prop]
    if a.replay:
        return do_replay(prop, spec, a.replay)
    tier = a.tier
    seed = a.seed
    if seed is None:
        seed = int(os.environ.get('VERIF_SEED') or spec.get('seed', 20260926))
    nruns = a.runs or spec['runs'][tier]
    workers = a.workers or int(os.environ.get('VERIF_WORKERS') or
                               min(16, os.cpu_count() or 4))
    hss = batch.HASHSEEDS_QUICK if tier == 'quick' else batch.HASHSEEDS_THOROUGH
    cpu_s = spec.get('cpu_s', 120)
    wall_s = spec.get('wall_s', 600)
    budget = spec.get('budget_s', {}).get(tier)
    t0 = time.monotonic()
    log('check %s tier=%s seed=%d runs=%d workers=%d hashseeds=%s' % (
        prop, tier, seed, nruns, workers, hss))
    seeds = batch.run_seeds(seed, nruns, prop)
    # known findings a fault-enumerating harness may continue past
    inrun_known = [k for k in batch.load_known()
                   if k.get('property') == prop and k.get('status') == 'known'
                   and k.get('id') and k.get('continue_in_run')]
    jobs = []
    for i, s in enumerate(seeds):
        jobs.append({'id': i, 'harness': spec['harness'], 'seed': s,
                     'tier': tier, 'hashseed': hss[i % len(hss)],
                     'cpu_s': cpu_s, 'wall_s': wall_s,
                     'config_override': dict(spec.get('config', {}), prop=prop),
                     'known': inrun_known,
                     'want_ops': i < 3})
    pool = batch.Pool(workers, hss)
    rc = 0
    try:
        deadline = (t0 + budget) if budget else None
        results = pool.map(jobs, deadline=deadline)
        skipped = pool.skipped
        byid = {r['id']: r for r in results}
        bad = [r for r in results if r.get('status') != 'ok']
        # ---------------- determinism self-check (same seed twice)
        ok = [r for r in results if r.get('status') == 'ok']
        nre = max(8, len(ok) // 50) if ok else 0
        nre = min(nre, len(ok))
        stride = max(1, len(ok) // max(1, nre))
        resample = sorted(ok, key=lambda r: r['id'])[::stride][:nre]
        rejobs = []
        for r in resample:
            j = dict(jobs[r['id']])
            j['want_ops'] = False
            rejobs.append(j)
        re = pool.map(rejobs)
        mism = []
        for r in re:
            if r.get('status') != 'ok' or r.get('digest') != byid[r['id']].get('digest'):
                mism.append((r['id'], byid[r['id']].get('digest'),
                             r.get('digest'), r.get('status')))
        # ---------------- violations
        viol = [r for r in ok if r.get('violation')]
        classes = {}
        for r in viol:
            classes.setdefault(canon(r['violation']['sig']), []).append(r)
        known = batch.load_known()
        harness_mod = None
        reported = []
        known_hit = {}
        unknown = 0
        maxshrink = spec.get('max_classes', 8)
        for ci, (ck, rs) in enumerate(sorted(classes.items())):
            rs.sort(key=lambda r: (r['nops'], r['id']))
            r = rs[0]
            k = batch.match_known(prop, r['violation'], known)
            if k is not None and ck in known_hit:
                continue
            rp = None
            err = None
            if ci < maxshrink:
                if harness_mod is None:
                    import importlib
                    from sim.core import engine
                    try:
                        harness_mod = importlib.import_module(
                            engine.HARNESSES[spec['harness']])
                    except Exception:
                        harness_mod = object()
                z = pool.get(r['hashseed'], 0)
                rp, err = batch.shrink(z, harness_mod, r, tier, cpu_s, wall_s,
                                       known=inrun_known)
            if rp is None:
                rp = {'config': r['config'], 'ops': r['ops'],
                      'violation': r['violation'], 'digest': r['digest'],
                      'minimised_from': r['nops'], 'shrink_tests': 0,
                      'shrink_note': err}
            rp.update({'property': prop, 'harness': spec['harness'],
                       'tier': tier, 'seed': r['seed'],
                       'hashseed': r['hashseed'],
                       # the recorded findings this run was allowed to continue
                       # past: part of the replay input, so that the file alone
                       # (plus the code) decides the execution
                       'inrun_known': inrun_known})
            v = rp['violation']
            k = batch.match_known(prop, v, known)
            tag = '' if k is None else '.known'
            path = replay_path(prop, r['seed'], tag)
            with open(path, 'w') as f:
                json.dump(rp, f, indent=1, sort_keys=True)
            # fresh-process replay must reproduce exactly
            # (a different zygote process than the one that shrank it)
            z = pool.get(r['hashseed'], 1)
            chk = z.run({'harness': spec['harness'], 'seed': r['seed'],
                         'tier': tier, 'cpu_s': cpu_s, 'wall_s': wall_s,
                         'known': inrun_known,
                         'replay': {'config': rp['config'],
                                    'ops': rp['ops']}})
            repro = (chk.get('status') == 'ok' and
                     batch.same_class(chk.get('violation'), v) and
                     chk.get('digest') == rp['digest'])
            if not repro:
                log('HARNESS-ERROR minimised replay did not reproduce '
                    'exactly: %s' % path)
                rc = max(rc, 2)
            if k is not None:
                known_hit[ck] = k
                log('KNOWN-FINDING: property=%s %s [%d runs; replay=%s; '
                    '%d ops from %d]' % (prop, k.get('what', ''), len(rs),
                                         os.path.relpath(path, VERIF),
                                         len(rp['ops']), rp['minimised_from']))
            else:
                unknown += 1
                log('violation class: %s' % ck)
                log('  %s (step %s): %s' % (v['invariant'], v['step'],
                                            v['detail'][:600]))
                log('VIOLATION property=%s replay=%s' % (prop, path))
                rc = max(rc, 1)
            reported.append({'sig': r['violation']['sig'], 'runs': len(rs),
                             'known': k is not None,
                             'replay': os.path.relpath(path, VERIF),
                             'ops': len(rp['ops']),
                             'minimised_from': rp['minimised_from']})
        # known findings met (and continued past) inside runs
        khits = {}
        for r in ok:
            for kid, h in ((r.get('stats') or {}).get('known_hits') or {}).items():
                e = khits.setdefault(kid, {'n': 0, 'runs': 0, 'example': h.get('example')})
                e['n'] += h.get('n', 0)
                e['runs'] += 1
        for kid, e in sorted(khits.items()):
            kf = [k for k in known if k.get('id') == kid]
            log('KNOWN-FINDING: property=%s %s [%d occurrences in %d runs; e.g. %s]' % (
                prop, kf[0].get('what', kid) if kf else kid, e['n'], e['runs'],
                e['example']))
            reported.append({'sig': (kf[0].get('signature') if kf else kid),
                             'runs': e['runs'], 'known': True, 'occurrences': e['n'],
                             'replay': None, 'ops': None, 'minimised_from': None})
            known_hit[kid] = True
        # every listed finding of this property is named, met in this batch or not
        met_ids = set(khits) | set(k.get('id') for k in known_hit.values()
                                   if isinstance(k, dict))
        for k in known:
            if k.get('property') == prop and k.get('status') == 'known' and \
                    k.get('id') not in met_ids:
                log('KNOWN-FINDING: property=%s %s [listed; not met by the %d runs of this '
                    'batch]' % (prop, k.get('what', k.get('id')), len(results)))
        if bad:
            for r in bad[:5]:
                log('HARNESS-ERROR run seed=%s status=%s %s' % (
                    r.get('seed'), r.get('status'), r.get('error', '')))
                if r.get('traceback'):
                    log(r['traceback'][-1500:])
            rc = max(rc, 2) if rc != 1 else rc
        if mism:
            for m in mism[:5]:
                log('HARNESS-ERROR nondeterminism id=%s %s != %s (%s)' % m)
            rc = 2 if rc == 0 else rc
        wall = time.monotonic() - t0
        # ---------------- evidence
        ev = build_evidence(prop, spec, tier, seed, jobs, results, byid,
                            resample, mism, reported, unknown, wall, hss,
                            workers, skipped, bad)
        if not a.no_evidence:
            write_evidence(prop, ev)
        cov = ev['coverage']
        log('%s: runs=%d ok=%d errors=%d violations(unlisted classes)=%d '
            'known=%d distinct_traces=%d nontrivial=%d determinism=%d/%d '
            'wall=%.1fs' % (prop, len(results), len(ok), len(bad), unknown,
                            len(known_hit), cov['distinct_traces'],
                            cov['distinct_nontrivial'],
                            len(resample) - len(mism), len(resample), wall))
        if cov['generator_errors']['count']:
            log('note: %d schedules ended early on a generator error (%s)' % (
                cov['generator_errors']['count'], cov['generator_errors']['first'][0]))
        if unknown and rc == 2:
            # a reported violation (with its replay file) outranks harness trouble
            # met in the same batch: exit 1, and say so
            log('note: harness errors occurred in this batch as well (see above); '
                'the reported violation decides the exit status')
            rc = 1
        if rc == 2:
            log('HARNESS-ERROR: result not trustworthy (exit 2)')
    finally:
        pool.close()
    return rc


def _merge(dst, src):
    for k, v in (src or {}).items():
        if isinstance(v, dict):
            _merge(dst.setdefault(k, {}), v)
        elif isinstance(v, (int, float)) and not isinstance(v, bool):
            dst[k] = dst.get(k, 0) + v
        else:
            dst.setdefault(k, v)


def build_evidence(prop, spec, tier, seed, jobs, results, byid, resample,
                   mism, reported, unknown, wall, hss, workers, skipped, bad):
    ok = [r for r in results if r.get('status') == 'ok']
    traces = set()
    nontriv = set()
    grams = set()
    probes, faults, stats = {}, {}, {}
    clock = {'reads': 0, 'span': 0.0, 'back': 0}
    gc = {'between': 0, 'inside': 0, 'inside_missed': 0}
    steps = 0
    for r in ok:
        traces.add(r.get('trace'))
        grams.update(r.get('grams', []))
        st = r.get('stats') or {}
        if st.get('nontrivial'):
            nontriv.add(r.get('trace'))
        _merge(probes, r.get('probes'))
        _merge(faults, r.get('faults'))
        _merge(stats, {k: v for k, v in st.items() if k != 'nontrivial'})
        for k in clock:
            clock[k] += r.get('clock', {}).get(k, 0)
        for k in gc:
            gc[k] += r.get('gc', {}).get(k, 0)
        steps += r.get('nops', 0)
    generr = [r.get('generator_error') for r in ok if r.get('generator_error')]
    samples = []
    for i in range(3):
        r = byid.get(i)
        if r and r.get('ops') is not None:
            samples.append({'seed': r['seed'], 'hashseed': r.get('hashseed'),
                            'config': r.get('config'),
                            'ops': r['ops'][:40],
                            'digest': r.get('digest')})
    evals = len(ok)
    cov = {
        'evaluations': int(stats.get('evaluations', evals) or evals),
        'distinct_nontrivial': len(nontriv),
        'rule': spec['rule'],
        'samples': samples or [{'note': 'no completed run'}],
        'runs': len(results),
        'runs_ok': len(ok),
        'runs_error': len(bad),
        'runs_skipped_budget': skipped,
        'generator_errors': {'count': len(generr), 'first': generr[:3]},
        'seeds': {'batch_seed': seed, 'first': [j['seed'] for j in jobs[:5]],
                  'derivation': 'H(batch_seed, property, i)'},
        'runs_per_hour': int(len(results) / max(wall, 1e-6) * 3600),
        'steps_total': steps,
        'simulated_seconds_covered': clock['span'],
        'clock_reads': clock['reads'],
        'clock_backward_jumps': clock['back'],
        'faults_fired': faults,
        'gc_events': gc,
        'probes': probes,
        'stats': stats,
        'distinct_traces': len(traces),
        'distinct_3grams': len(grams),
        'hash_seeds': hss,
        'workers': workers,
        'components': spec.get('components', {}),
        'determinism_selfcheck': {'pairs': len(resample),
                                  'mismatches': len(mism)},
        'violation_classes': reported,
        'known_findings_matched': sum(1 for x in reported if x['known']),
        'exhaustive': bool(stats.get('exhaustive_files', 0)) and
        spec.get('level') == 'fault_enumeration' and tier == 'thorough',
    }
    return {
        'property_id': prop, 'tier': tier, 'seed': int(seed),
        'level': spec['level'], 'coverage': cov,
        'assumptions': spec.get('assumptions', []),
        'wall_s': round(wall, 2), 'violations': unknown,
    }


if __name__ == '__main__':
    sys.exit(main())
