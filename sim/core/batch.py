"""Batch driver: seeded search over many simulated runs, on all cores.

One zygote process per worker (PYTHONHASHSEED fixed per zygote), one forked
child per run.  Collects results, re-runs a sample of seeds to prove
determinism, minimises violations (ddmin over the recorded operation list),
verifies the minimised replay in a fresh process, matches known findings,
writes evidence.
"""
import json
import os
import queue
import subprocess
import sys
import threading
import time

from .world import derive

VERIF = os.path.dirname(os.path.dirname(os.path.dirname(
    os.path.abspath(__file__))))
PY = os.environ.get('VERIF_PYTHON', '/venv/bin/python')
HASHSEEDS_QUICK = [0, 1, 7, 4242]
HASHSEEDS_THOROUGH = [0, 1, 2, 3, 7, 99, 4242, 31337]


class Zygote(object):
    def __init__(self, hashseed, debug_log=None):
        env = dict(os.environ)
        env['PYTHONHASHSEED'] = str(hashseed)
        env['PYTHONDONTWRITEBYTECODE'] = '1'
        env['PYTHONPATH'] = VERIF
        if os.environ.get('PNC_REPO_SRC'):
            # sensitivity runs against a scratch copy of the sources (mutants)
            env['PYTHONPATH'] = os.environ['PNC_REPO_SRC'] + os.pathsep + VERIF
        env['OMP_NUM_THREADS'] = '1'
        env['OPENBLAS_NUM_THREADS'] = '1'
        env['MKL_NUM_THREADS'] = '1'
        env['HDF5_USE_FILE_LOCKING'] = 'FALSE'
        env['VERIF_SCRATCH'] = batch_scratch()
        env.pop('PYTHONWARNINGS', None)
        if debug_log:
            env['VERIF_DEBUG_LOG'] = debug_log
        self.hashseed = hashseed
        self.p = subprocess.Popen(
            [PY, '-u', '-W', 'ignore', '-m', 'sim.core.zygote'],
            stdin=subprocess.PIPE, stdout=subprocess.PIPE, env=env,
            cwd=VERIF, text=True, bufsize=1)
        line = self.p.stdout.readline()
        try:
            hello = json.loads(line)
        except Exception:
            hello = {'ready': False, 'error': 'no hello: %r' % line}
        if not hello.get('ready'):
            raise RuntimeError('zygote failed to start: %s' %
                               hello.get('error'))

    def run(self, job):
        self.p.stdin.write(json.dumps(job) + '\n')
        self.p.stdin.flush()
        line = self.p.stdout.readline()
        if not line:
            raise RuntimeError('zygote died')
        return json.loads(line)

    def close(self):
        try:
            self.p.stdin.write(json.dumps({'quit': True}) + '\n')
            self.p.stdin.flush()
            self.p.stdin.close()
        except Exception:
            pass
        try:
            self.p.wait(timeout=10)
        except Exception:
            self.p.kill()


_SCRATCH = [None]


def batch_scratch():
    """one scratch directory per batch process, removed at exit (children
    that are killed cannot clean up after themselves)"""
    import atexit
    import shutil
    import tempfile
    if _SCRATCH[0] is None:
        from . import seams
        d = tempfile.mkdtemp(prefix='pncsim-batch.', dir=seams.scratch_root())
        _SCRATCH[0] = d
        atexit.register(shutil.rmtree, d, True)
    return _SCRATCH[0]


class Pool(object):
    """workers zygotes spread over the hash-seed set."""

    def __init__(self, workers, hashseeds):
        self.hashseeds = list(hashseeds)
        self.workers = max(1, workers)
        self.zs = []
        errs = []

        def mk(i):
            try:
                self.zs.append(Zygote(self.hashseeds[i % len(self.hashseeds)]))
            except Exception as e:
                errs.append(e)
        ts = [threading.Thread(target=mk, args=(i,))
              for i in range(self.workers)]
        for t in ts:
            t.start()
        for t in ts:
            t.join()
        if errs:
            self.close()
            raise errs[0]

    def map(self, jobs, on_result=None, deadline=None):
        """jobs: list of dicts with 'hashseed' (or None = any).  Returns list
        of results in completion order.  Jobs not started before `deadline`
        (time.monotonic) are dropped and counted."""
        byhs = {}
        for z in self.zs:
            byhs.setdefault(z.hashseed, []).append(z)
        qs = {hs: queue.Queue() for hs in byhs}
        anyq = queue.Queue()
        for j in jobs:
            hs = j.get('hashseed')
            if hs is None or hs not in qs:
                anyq.put(j)
            else:
                qs[hs].put(j)
        results = []
        lock = threading.Lock()
        skipped = [0]
        errors = []

        def work(z):
            q = qs[z.hashseed]
            while True:
                try:
                    j = q.get_nowait()
                except queue.Empty:
                    try:
                        j = anyq.get_nowait()
                    except queue.Empty:
                        return
                if deadline is not None and time.monotonic() > deadline:
                    with lock:
                        skipped[0] += 1
                    continue
                try:
                    r = z.run(j)
                except Exception as e:
                    with lock:
                        errors.append('%s' % e)
                    return
                r['hashseed'] = z.hashseed
                with lock:
                    results.append(r)
                if on_result:
                    on_result(r)
        ts = [threading.Thread(target=work, args=(z,)) for z in self.zs]
        for t in ts:
            t.start()
        for t in ts:
            t.join()
        if errors:
            raise RuntimeError('zygote failure: %s' % errors[0])
        self.skipped = skipped[0]
        return results

    def get(self, hashseed, n=0):
        """n-th zygote with this hash seed (starts one if needed)"""
        zs = [z for z in self.zs if z.hashseed == hashseed]
        while len(zs) <= n:
            z = Zygote(hashseed)
            self.zs.append(z)
            zs.append(z)
        return zs[n]

    def close(self):
        for z in self.zs:
            z.close()
        self.zs = []


# --------------------------------------------------------------------------
# shrinking
# --------------------------------------------------------------------------
def same_class(v, w):
    """Same violation class: same invariant and same signature."""
    if v is None or w is None:
        return False
    return v.get('sig') == w.get('sig')


def ddmin(ops, test, maxtests=400):
    """Classic delta debugging over a list; test(list)->bool (still fails)."""
    n = 2
    tests = [0]

    def t(x):
        tests[0] += 1
        return test(x)
    while len(ops) >= 2 and tests[0] < maxtests:
        chunk = max(1, len(ops) // n)
        subsets = [ops[i:i + chunk] for i in range(0, len(ops), chunk)]
        reduced = False
        for i in range(len(subsets)):
            comp = [x for j, s in enumerate(subsets) if j != i for x in s]
            if comp and t(comp):
                ops = comp
                n = max(n - 1, 2)
                reduced = True
                break
            if tests[0] >= maxtests:
                break
        if not reduced:
            if n >= len(ops):
                break
            n = min(len(ops), n * 2)
    # final single-removal pass
    i = 0
    while i < len(ops) and tests[0] < maxtests and len(ops) > 1:
        comp = ops[:i] + ops[i + 1:]
        if t(comp):
            ops = comp
        else:
            i += 1
    return ops, tests[0]


def shrink(z, harness_mod, res, tier, cpu_s, wall_s, known=None):
    """Minimise res (a violating result with ops/config) using zygote z.
    known: the in-run known-findings list the original run was given (a run
    continues past those; replays must do the same to reach the violation)."""
    base = res['violation']
    config = res['config']
    seed = res['seed']

    def runops(ops, cfg=None):
        job = {'harness': res['harness'], 'seed': seed, 'tier': tier,
               'cpu_s': cpu_s, 'wall_s': wall_s, 'known': known or [],
               'replay': {'config': cfg or config, 'ops': ops}}
        return z.run(job)

    def still(ops):
        r = runops(ops)
        return r.get('status') == 'ok' and same_class(r.get('violation'), base)

    ops = list(res['ops'])
    n0 = len(ops)
    # replay of the full recording must reproduce first
    r0 = runops(ops)
    if not (r0.get('status') == 'ok' and
            same_class(r0.get('violation'), base)):
        return None, {'reason': 'recorded ops do not reproduce',
                      'got': r0.get('violation'), 'status': r0.get('status')}
    # cut after the violating step
    step = r0['violation']['step']
    ops = ops[:step + 1]
    ops, ntests = ddmin(ops, still)
    # harness-specific argument shrinking
    simp = getattr(harness_mod, 'simplify_op', None)
    if simp is not None:
        changed = True
        rounds = 0
        while changed and rounds < 3:
            changed = False
            rounds += 1
            for i in range(len(ops)):
                for cand in simp(ops[i]):
                    trial = ops[:i] + [cand] + ops[i + 1:]
                    ntests += 1
                    if still(trial):
                        ops = trial
                        changed = True
                        break
    final = runops(ops)
    return {'config': config, 'ops': ops, 'violation': final['violation'],
            'digest': final['digest'], 'minimised_from': n0,
            'shrink_tests': ntests}, None


# --------------------------------------------------------------------------
# known findings
# --------------------------------------------------------------------------
def load_known():
    p = os.path.join(VERIF, 'known_findings.json')
    if not os.path.exists(p):
        return []
    with open(p) as f:
        return json.load(f).get('findings', [])


def match_known(prop, violation, known):
    sig = violation.get('sig', {})
    for k in known:
        if k.get('property') != prop or k.get('status') != 'known':
            continue
        ok = True
        for key, want in k.get('signature', {}).items():
            have = sig.get(key)
            if isinstance(want, list):
                if have not in want:
                    ok = False
            elif have != want:
                ok = False
        if ok:
            return k
    return None


def run_seeds(seed, n, tag):
    return [derive(seed, tag, i) for i in range(n)]
