"""The per-run loop: one seed -> one exactly repeatable execution.

A harness module provides

    NAME, PROPERTIES
    gen_config(rng, tier) -> dict           swarm configuration (JSON)
    start(world, config) -> state
    gen_op(rng, state) -> dict | None        next operation / fault / schedule
                                            decision, drawn online
    apply(state, op) -> dict                 runs the REAL code; returns
                                            observations; raises Violation
    finish(state) -> None                    end-of-run checks
    stats(state) -> dict                     counters for evidence

Replay executes a recorded `ops` list literally (no PRNG draws for
operations); operations whose targets no longer exist are no-ops by the
harness's own rules.
"""
import importlib
import traceback

from . import seams
from .world import World, Violation, HarnessError, derive, rng_for, jsonable

HARNESSES = {
    'iso': 'sim.scen_iso',
    'hist': 'sim.scen_hist',
    'crash': 'sim.scen_crash',
    'ack_nc': 'sim.scen_ack_nc',
    'ack_camx': 'sim.scen_ack_camx',
    'ack_icartt': 'sim.scen_ack_icartt',
    'ack_bpch': 'sim.scen_ack_bpch',
    'cursor': 'sim.scen_cursor',
}


def load(name):
    return importlib.import_module(HARNESSES[name])


def run(job, root):
    """Executed inside a freshly forked child.  Returns a JSON-able dict."""
    name = job['harness']
    h = load(name)
    seed = int(job['seed'])
    tier = job.get('tier', 'quick')
    world = World(root, seed)
    world.known = list(job.get('known') or [])
    replay = job.get('replay')
    rng = rng_for(seed, 'main')
    if replay is not None:
        config = replay['config']
        ops = list(replay['ops'])
    else:
        config = h.gen_config(rng, tier)
        if job.get('config_override'):
            config.update(job['config_override'])
        ops = None
    seams.CLOCK.reset(derive(seed, 'clock'), config.get('clock', 'steady'))
    seams.GC.start()
    world.log({'config': config})
    out = {'seed': seed, 'harness': name, 'status': 'ok', 'violation': None}
    done = []
    state = None
    try:
        state = h.start(world, config)
        i = 0
        maxsteps = int(config.get('max_steps', 200))
        while i < maxsteps:
            if ops is not None:
                if i >= len(ops):
                    break
                op = ops[i]
            else:
                try:
                    op = h.gen_op(rng, state)
                except (Violation, HarnessError):
                    raise
                except Exception as e:
                    # a bug in the GENERATOR ends the schedule early; everything
                    # executed so far was judged normally, so this is reported
                    # (evidence: generator_errors) but is not a harness failure
                    out['generator_error'] = '%s: %s' % (type(e).__name__, e)
                    break
                if op is None:
                    break
                op = jsonable(op)
            world.step = i
            done.append(op)
            try:
                obs = h.apply(state, op)
            except Violation as v:
                out['violation'] = v.as_dict(i)
                world.log({'i': i, 'op': op, 'violation': v.invariant,
                           'detail': world.scrub(v.detail)})
                break
            world.log({'i': i, 'op': op, 'obs': obs})
            i += 1
        if out['violation'] is None:
            try:
                h.finish(state)
            except Violation as v:
                out['violation'] = v.as_dict(len(done))
                world.log({'finish': True, 'violation': v.invariant,
                           'detail': world.scrub(v.detail)})
    except HarnessError as e:
        out['status'] = 'error'
        out['error'] = 'HarnessError: %s' % e
        out['traceback'] = traceback.format_exc()
    except MemoryError:
        out['status'] = 'error'
        out['error'] = 'MemoryError'
    except Exception as e:   # a bug in the harness, never a verdict
        out['status'] = 'error'
        out['error'] = '%s: %s' % (type(e).__name__, e)
        out['traceback'] = traceback.format_exc()
    if out['violation'] is not None:
        out['violation']['detail'] = world.scrub(out['violation']['detail'])
    out['digest'] = world.digest()
    out['nops'] = len(done)
    out['config'] = config
    if out['violation'] is not None or job.get('want_ops') or \
            out['status'] != 'ok':
        out['ops'] = done
    if job.get('want_events'):
        out['events'] = world.events
    grams, whole = world.trace_keys()
    out['grams'] = grams
    out['trace'] = whole
    out['probes'] = world.probes
    out['faults'] = world.faults
    out['clock'] = {'reads': seams.CLOCK.reads, 'span': seams.CLOCK.span,
                    'back': seams.CLOCK.back}
    out['gc'] = {'between': seams.GC.between, 'inside': seams.GC.inside,
                 'inside_missed': seams.GC.inside_missed}
    if state is not None:
        try:
            out['stats'] = jsonable(h.stats(state))
        except Exception:
            out['stats'] = {}
    return out
