"""Seams: every source of nondeterminism the properties touch is owned here.

* simulated wall clock (datetime.datetime subclass installed before
  PseudoNetCDF is imported)
* cyclic GC trigger (gc disabled; explicit collect between steps and at a
  seeded library-call index inside an operation)
* resource limits for children (CPU, file size)

Nothing here draws from the scenario PRNG; the clock has its own generator
derived from the run seed (see prng.derive), so one integer still decides
everything.
"""
import datetime as _dt
import gc
import os
import random
import resource
import sys

_RealDatetime = _dt.datetime
SIM_EPOCH = _RealDatetime(2093, 1, 1, 0, 0, 0)
REPO_SRC = os.path.realpath(os.environ.get('PNC_REPO_SRC', '/repo/src'))


class SimClock(object):
    """The only clock the library reads.  Advances on every read."""

    def __init__(self):
        self.reset(0, 'steady')

    def reset(self, seed, policy):
        self.rng = random.Random(seed)
        self.policy = policy
        self.offset = 0.0          # simulated seconds since SIM_EPOCH
        self.reads = 0
        self.span = 0.0            # total |movement|
        self.back = 0              # backward jumps (skew)

    def _advance(self):
        p = self.policy
        r = self.rng.random()
        if p == 'steady':
            d = 1 + int(r * 3)
        elif p == 'jumpy':
            # seconds to days; sometimes backwards
            k = self.rng.random()
            if k < 0.5:
                d = 1 + int(r * 120)
            elif k < 0.8:
                d = 3600 + int(r * 86400)
            elif k < 0.93:
                d = 86400 * (1 + int(r * 400))
            else:
                d = -(1 + int(r * 7200))
        elif p == 'frozen':
            d = 0
        else:
            d = 1
        self.jump(d)

    def jump(self, seconds):
        self.offset += seconds
        self.span += abs(seconds)
        if seconds < 0:
            self.back += 1
        if self.offset < 0:
            self.offset = 0.0

    def read(self):
        self.reads += 1
        self._advance()
        return SIM_EPOCH + _dt.timedelta(seconds=self.offset)


CLOCK = SimClock()


def stamp_file(path):
    """File modification times belong to the simulated clock too: a file just
    written by the system under test carries the simulated 'now' (whole
    seconds, without advancing the clock), so anything keyed on mtime sees a
    seed-decided value and same-second rewrites are reproducible."""
    t = (SIM_EPOCH - _RealDatetime(1970, 1, 1)).total_seconds() + int(CLOCK.offset)
    os.utime(path, (t, t))
    return t


class _Meta(type(_RealDatetime)):
    def __instancecheck__(cls, inst):
        return isinstance(inst, _RealDatetime)

    def __subclasscheck__(cls, sub):
        return issubclass(sub, _RealDatetime)


class SimDatetime(_RealDatetime, metaclass=_Meta):
    """datetime.datetime whose now/today/utcnow read the simulated clock."""

    @classmethod
    def now(cls, tz=None):
        t = CLOCK.read()
        r = cls(t.year, t.month, t.day, t.hour, t.minute, t.second)
        if tz is not None:
            r = r.replace(tzinfo=_dt.timezone.utc).astimezone(tz)
        return r

    @classmethod
    def today(cls):
        return cls.now()

    @classmethod
    def utcnow(cls):
        return cls.now()


_installed = False


def install_clock():
    """Must run after numpy/pandas/netCDF4 are imported and before
    PseudoNetCDF is imported (its modules bind datetime at import)."""
    global _installed
    if _installed:
        return
    if 'PseudoNetCDF' in sys.modules:
        raise RuntimeError('clock seam must be installed before PseudoNetCDF')
    SimDatetime.__name__ = 'datetime'
    SimDatetime.__qualname__ = 'datetime'
    _dt.datetime = SimDatetime
    _installed = True


def clock_leak_check(value):
    """A YYYYJJJ stamp before the simulated epoch means a real-clock read
    slipped past the seam (harness error, never a violation)."""
    try:
        y = int(value) // 1000
    except Exception:
        return False
    return 2015 <= y <= 2045


# --------------------------------------------------------------------------
# GC seam
# --------------------------------------------------------------------------
class GCSeam(object):
    def __init__(self):
        self.between = 0
        self.inside = 0
        self.inside_missed = 0
        self._target = None
        self._count = 0
        self.collected = 0

    def start(self):
        gc.disable()
        gc.collect()

    def collect(self, gen=2):
        self.between += 1
        n = gc.collect(gen)
        self.collected += n
        return n

    # collector fires at the k-th library call of the next operation
    def arm_inside(self, k):
        self._target = int(k)
        self._count = 0
        sys.setprofile(self._prof)

    def disarm(self):
        """-> (library calls seen, collector fired inside the operation)"""
        sys.setprofile(None)
        fired = self._target is None
        if not fired:
            self.inside_missed += 1
        self._target = None
        return self._count, fired

    def _prof(self, frame, event, arg):
        if event != 'call':
            return
        fn = frame.f_code.co_filename
        if not fn.startswith(REPO_SRC):
            return
        self._count += 1
        if self._target is not None and self._count >= self._target:
            self._target = None
            sys.setprofile(None)
            self.inside += 1
            self.collected += gc.collect()


GC = GCSeam()


# --------------------------------------------------------------------------
# resource limits
# --------------------------------------------------------------------------
def limit_cpu(seconds):
    soft = int(seconds)
    resource.setrlimit(resource.RLIMIT_CPU, (soft, soft + 2))


def limit_as(nbytes=4 << 30):
    """Allocator seam: a request beyond the address-space cap fails at once
    (MemoryError) instead of being served lazily by the host.  Generated files
    are kilobytes; only a count or size read from foreign bytes asks for more."""
    try:
        resource.setrlimit(resource.RLIMIT_AS, (int(nbytes), int(nbytes)))
    except (ValueError, OSError):
        pass


def limit_fsize(nbytes):
    import signal
    signal.signal(signal.SIGXFSZ, signal.SIG_IGN)
    resource.setrlimit(resource.RLIMIT_FSIZE, (int(nbytes), int(nbytes)))


def scratch_root():
    root = os.environ.get('VERIF_SCRATCH')
    if not root:
        root = '/dev/shm' if os.access('/dev/shm', os.W_OK) else \
            (os.environ.get('TMPDIR') or '/tmp')
    return root
