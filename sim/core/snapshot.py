"""Deep, independent snapshots of netCDF-like files and their comparison.

A snapshot is plain python/bytes: it shares no memory with the file it was
taken from.  Comparison is bitwise on what the file *presents* (dimensions,
attribute values, variable dtype/dims/shape, unmasked data, mask, variable
attributes).  Not compared: object identity, caches, attribute order,
variable order (reported separately where a property asserts it).
"""
import hashlib

import numpy as np


def canon_value(v):
    """Attribute value -> hashable canonical form (type tag, dtype, bytes)."""
    if isinstance(v, str):
        return ('str', v)
    if isinstance(v, bytes):
        return ('bytes', v)
    if isinstance(v, (bool, np.bool_)):
        return ('bool', bool(v))
    if isinstance(v, int):
        return ('int', int(v))
    if isinstance(v, float):
        return ('float', np.float64(v).tobytes())
    if isinstance(v, np.ma.MaskedArray):
        a = np.ma.getdata(v)
        m = np.ma.getmaskarray(v)
        a = np.where(m, np.zeros((), a.dtype), a) if a.dtype.kind != 'O' else a
        return ('marr', a.dtype.str, a.shape, np.ascontiguousarray(a).tobytes(),
                np.ascontiguousarray(m).tobytes())
    if isinstance(v, np.ndarray):
        if v.dtype.kind == 'O':
            return ('oarr', repr(v.tolist()))
        return ('arr', v.dtype.str, v.shape,
                np.ascontiguousarray(v).tobytes())
    if isinstance(v, np.generic):
        return ('np', v.dtype.str, v.tobytes())
    if isinstance(v, (list, tuple)):
        return ('seq', tuple(canon_value(i) for i in v))
    if v is None:
        return ('none',)
    if callable(v):
        return ('callable',)
    return ('repr', repr(v))


def _ncattrs(obj):
    try:
        return list(obj.ncattrs())
    except Exception:
        return []


def _getattr(obj, k):
    try:
        return obj.getncattr(k)
    except Exception:
        return getattr(obj, k)


def read_var(var):
    """Return (data ndarray, mask ndarray or None) as presented by [...]"""
    try:
        vals = var[...]
    except Exception:
        vals = var[:]
    if vals is np.ma.masked:
        # fully masked scalar read through netCDF4: the constant carries no dtype
        dt = getattr(var, 'dtype', np.dtype('f8'))
        return np.zeros((), dtype=dt), np.ones((), dtype=bool)
    if isinstance(vals, np.ma.MaskedArray):
        data = np.array(np.ma.getdata(vals), copy=True)
        mask = np.array(np.ma.getmaskarray(vals), copy=True)
        if not mask.any():
            pass
        return data, mask
    return np.array(vals, copy=True), None


def snap_var(var):
    data, mask = read_var(var)
    ismasked = mask is not None
    anymask = bool(mask.any()) if ismasked else False
    if data.dtype.kind == 'O':
        body = repr(data.tolist()).encode()
    else:
        d = data
        if anymask:
            d = data.copy()
            d[mask] = np.zeros((), data.dtype)
        body = np.ascontiguousarray(d).tobytes()
    attrs = {}
    for k in _ncattrs(var):
        try:
            attrs[k] = canon_value(_getattr(var, k))
        except Exception as e:
            attrs[k] = ('unreadable', type(e).__name__)
    fv = None
    if ismasked:
        try:
            fv = canon_value(var.fill_value)
        except Exception:
            fv = None
    return {
        'dtype': data.dtype.str,
        'dims': tuple(getattr(var, 'dimensions', ())),
        'shape': tuple(data.shape),
        'data': body,
        'maskedtype': ismasked,
        'mask': (np.ascontiguousarray(mask).tobytes() if anymask else b''),
        'attrs': attrs,
    }


def snap_file(f):
    dims = []
    for dk, dv in f.dimensions.items():
        try:
            unl = bool(dv.isunlimited())
        except Exception:
            unl = False
        dims.append((dk, len(dv), unl))
    attrs = {}
    for k in _ncattrs(f):
        try:
            attrs[k] = canon_value(_getattr(f, k))
        except Exception as e:
            attrs[k] = ('unreadable', type(e).__name__)
    vars_ = {}
    order = []
    for vk in list(f.variables.keys()):
        order.append(vk)
        vars_[vk] = snap_var(f.variables[vk])
    return {'dims': dims, 'attrs': attrs, 'vars': vars_, 'order': order}


def digest(snap):
    h = hashlib.sha256()
    h.update(repr(snap['dims']).encode())
    for k in sorted(snap['attrs']):
        h.update(k.encode())
        h.update(repr(snap['attrs'][k]).encode())
    for vk in sorted(snap['vars']):
        v = snap['vars'][vk]
        h.update(vk.encode())
        h.update(repr((v['dtype'], v['dims'], v['shape'])).encode())
        h.update(v['data'])
        h.update(v['mask'])
        for k in sorted(v['attrs']):
            h.update(k.encode())
            h.update(repr(v['attrs'][k]).encode())
    return h.hexdigest()[:20]


def content_digest(snap):
    """Digest of dimensions and variable data only (C15's 'data presented')."""
    h = hashlib.sha256()
    h.update(repr(snap['dims']).encode())
    for vk in sorted(snap['vars']):
        v = snap['vars'][vk]
        h.update(vk.encode())
        h.update(repr((v['dtype'], v['dims'], v['shape'])).encode())
        h.update(v['data'])
        h.update(v['mask'])
    return h.hexdigest()[:20]


def diff(a, b, ignore_attrs=(), ignore_var_attrs=()):
    """List of human-readable differences between two snapshots (a=model)."""
    out = []
    if a['dims'] != b['dims']:
        out.append('dimensions %r -> %r' % (a['dims'], b['dims']))
    ka = set(a['attrs']) - set(ignore_attrs)
    kb = set(b['attrs']) - set(ignore_attrs)
    for k in sorted(ka - kb):
        out.append('attribute %s removed' % k)
    for k in sorted(kb - ka):
        out.append('attribute %s added' % k)
    for k in sorted(ka & kb):
        if a['attrs'][k] != b['attrs'][k]:
            out.append('attribute %s changed %s -> %s' % (
                k, _short(a['attrs'][k]), _short(b['attrs'][k])))
    va, vb = set(a['vars']), set(b['vars'])
    for k in sorted(va - vb):
        out.append('variable %s removed' % k)
    for k in sorted(vb - va):
        out.append('variable %s added' % k)
    for k in sorted(va & vb):
        x, y = a['vars'][k], b['vars'][k]
        for f in ('dtype', 'dims', 'shape'):
            if x[f] != y[f]:
                out.append('variable %s %s %r -> %r' % (k, f, x[f], y[f]))
        if x['mask'] != y['mask']:
            out.append('variable %s mask changed' % k)
        if x['data'] != y['data']:
            out.append('variable %s data changed%s' % (
                k, _where(x, y)))
        xa = {p: v for p, v in x['attrs'].items()
              if p not in ignore_var_attrs}
        ya = {p: v for p, v in y['attrs'].items()
              if p not in ignore_var_attrs}
        if xa != ya:
            for p in sorted(set(xa) | set(ya)):
                if xa.get(p) != ya.get(p):
                    out.append('variable %s attribute %s %s -> %s' % (
                        k, p, _short(xa.get(p)), _short(ya.get(p))))
    return out


def _short(c):
    s = repr(c)
    return s if len(s) < 120 else s[:117] + '...'


def _where(x, y):
    try:
        if x['dtype'] != y['dtype'] or x['shape'] != y['shape']:
            return ''
        dt = np.dtype(x['dtype'])
        if dt.kind == 'O':
            return ''
        a = np.frombuffer(x['data'], dtype=dt)
        b = np.frombuffer(y['data'], dtype=dt)
        idx = np.nonzero(a.view('u1').reshape(a.size, -1) !=
                         b.view('u1').reshape(b.size, -1))[0]
        i = int(idx[0])
        return ' (first at flat index %d: %r -> %r; %d cells)' % (
            i, a[i].item(), b[i].item(), len(set(idx.tolist())))
    except Exception:
        return ''
