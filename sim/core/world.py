"""World of one run: scratch directory, event log, digest, violations."""
import hashlib
import json
import os
import random

import numpy as np


def derive(seed, *parts):
    """Deterministic 63-bit sub-seed: H(seed, parts)."""
    h = hashlib.sha256(repr((int(seed),) + tuple(parts)).encode()).digest()
    return int.from_bytes(h[:8], 'big') >> 1


def rng_for(seed, *parts):
    return random.Random(derive(seed, *parts))


class Violation(Exception):
    """A property violation observed against the real code."""

    def __init__(self, invariant, detail, sig=None, **extra):
        Exception.__init__(self, '%s: %s' % (invariant, detail))
        self.invariant = invariant
        self.detail = str(detail)[:2000]
        self.sig = dict(sig or {})
        self.sig.setdefault('invariant', invariant)
        self.extra = extra

    def as_dict(self, step):
        d = {'invariant': self.invariant, 'detail': self.detail,
             'sig': self.sig, 'step': step}
        d.update(self.extra)
        return d


class HarnessError(Exception):
    """The harness itself is wrong or its environment is broken (exit 2)."""


def jsonable(x):
    if isinstance(x, dict):
        return {str(k): jsonable(v) for k, v in x.items()}
    if isinstance(x, (list, tuple)):
        return [jsonable(v) for v in x]
    if isinstance(x, (np.integer,)):
        return int(x)
    if isinstance(x, (np.floating,)):
        return float(x)
    if isinstance(x, (np.bool_,)):
        return bool(x)
    if isinstance(x, np.ndarray):
        return jsonable(x.tolist())
    if isinstance(x, bytes):
        return x.hex()
    if isinstance(x, float):
        if x != x:
            return 'nan'
        if x in (float('inf'), float('-inf')):
            return repr(x)
        return x
    if isinstance(x, (str, int, bool)) or x is None:
        return x
    return repr(x)


def canon(x):
    return json.dumps(jsonable(x), sort_keys=True, separators=(',', ':'),
                      allow_nan=False)


class World(object):
    def __init__(self, root, seed):
        self.root = root
        self.seed = seed
        self.events = []
        self._h = hashlib.sha256()
        self.step = 0
        self.probes = {}
        self.faults = {}
        self.trace = []          # abstracted events (tuples of str)
        self.known = []          # known-finding signatures (read-only input)

    def known_match(self, sig):
        """id of the known finding whose signature matches, else None.  Lets
        a harness that enumerates faults continue past a recorded finding
        instead of stopping at it (so the rest of the space is still judged)."""
        for k in self.known:
            ok = True
            for key, want in k.get('signature', {}).items():
                have = sig.get(key)
                if isinstance(want, list):
                    if have not in want:
                        ok = False
                elif have != want:
                    ok = False
            if ok:
                return k.get('id')
        return None

    def path(self, *names):
        return os.path.join(self.root, *names)

    def rel(self, p):
        if isinstance(p, str) and p.startswith(self.root):
            return p[len(self.root):].lstrip('/')
        return p

    def scrub(self, text):
        return str(text).replace(self.root, '<root>')

    def log(self, ev):
        s = canon(ev)
        s = s.replace(self.root, '<root>')
        self._h.update(s.encode())
        self._h.update(b'\n')
        self.events.append(s)

    def digest(self):
        return self._h.hexdigest()

    def probe(self, name, n=1):
        self.probes[name] = self.probes.get(name, 0) + n

    def fault(self, kind, n=1):
        self.faults[kind] = self.faults.get(kind, 0) + n

    def abstract(self, *parts):
        self.trace.append('/'.join(str(p) for p in parts))

    def trace_keys(self):
        """3-grams of the abstracted trace, hashed (measure of distinct
        interleavings reached)."""
        t = self.trace
        grams = set()
        for i in range(max(0, len(t) - 2)):
            grams.add(hashlib.md5(('|'.join(t[i:i + 3])).encode())
                      .hexdigest()[:12])
        whole = hashlib.md5('|'.join(t).encode()).hexdigest()[:16]
        return sorted(grams), whole
