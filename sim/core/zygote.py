"""Zygote: installs the seams, imports PseudoNetCDF from the working tree once,
never opens a file, and forks one pristine child per run.

Protocol: one JSON job per line on stdin, one JSON result per line on the
protocol fd (the original stdout).  The library prints to stdout (pncgen
verbose) so fd 1 is redirected away from the protocol.
"""
import json
import os
import select
import shutil
import signal
import sys
import tempfile
import time


def _setup():
    # libraries that must keep the REAL datetime are imported first
    import numpy  # noqa
    import netCDF4  # noqa
    try:
        import pandas  # noqa
    except Exception:
        pass
    from . import seams
    seams.install_clock()
    import warnings
    warnings.simplefilter('ignore')
    import PseudoNetCDF
    src = os.path.realpath(os.path.dirname(os.path.dirname(
        PseudoNetCDF.__file__)))
    want = seams.REPO_SRC
    if src != want:
        raise SystemExit('PseudoNetCDF imported from %s, expected %s' %
                         (src, want))
    # modules children will need (import cost paid once)
    import PseudoNetCDF.pncgen  # noqa
    import PseudoNetCDF.cmaqfiles  # noqa
    import PseudoNetCDF.camxfiles.Memmaps  # noqa
    try:
        import PseudoNetCDF.camxfiles.Readers  # noqa
    except Exception:
        pass
    import PseudoNetCDF.icarttfiles.ffi1001  # noqa
    from . import engine
    for k in list(engine.HARNESSES):
        try:
            engine.load(k)
        except ImportError:
            pass
    return engine


def _child(engine, job, root, wfd):
    from . import seams
    out = None
    try:
        os.chdir(root)
        seams.limit_cpu(job.get('cpu_s', 60))
        seams.limit_as()
        sys.setrecursionlimit(3000)
        out = engine.run(job, root)
    except BaseException as e:  # noqa
        import traceback
        out = {'seed': job.get('seed'), 'status': 'error',
               'error': 'child: %s: %s' % (type(e).__name__, e),
               'traceback': traceback.format_exc(), 'violation': None}
    try:
        data = json.dumps(out).encode()
    except Exception as e:
        data = json.dumps({'seed': job.get('seed'), 'status': 'error',
                           'error': 'unserialisable result: %s' % e,
                           'violation': None}).encode()
    try:
        off = 0
        while off < len(data):
            off += os.write(wfd, data[off:off + 65536])
    finally:
        os._exit(0)


def run_job(engine, job):
    root = tempfile.mkdtemp(prefix='pncsim.', dir=_scratch())
    rfd, wfd = os.pipe()
    sys.stdout.flush()
    sys.stderr.flush()
    pid = os.fork()
    if pid == 0:
        os.close(rfd)
        _child(engine, job, root, wfd)
        os._exit(0)
    os.close(wfd)
    wall = float(job.get('wall_s', 300))
    t0 = time.monotonic()
    chunks = []
    status = None
    while True:
        left = wall - (time.monotonic() - t0)
        if left <= 0:
            try:
                os.kill(pid, signal.SIGKILL)
            except OSError:
                pass
            status = 'wall'
            break
        r, _, _ = select.select([rfd], [], [], min(left, 1.0))
        if r:
            b = os.read(rfd, 1 << 16)
            if not b:
                break
            chunks.append(b)
    os.close(rfd)
    _, st = os.waitpid(pid, 0)
    shutil.rmtree(root, ignore_errors=True)
    res = None
    if chunks and status is None:
        try:
            res = json.loads(b''.join(chunks).decode())
        except Exception:
            res = None
    if res is None:
        res = {'seed': job.get('seed'), 'violation': None}
        if status == 'wall':
            res['status'] = 'wall'
        elif os.WIFSIGNALED(st):
            sig = os.WTERMSIG(st)
            res['status'] = 'cpu' if sig in (signal.SIGXCPU, signal.SIGKILL) \
                else 'crash'
            res['signal'] = sig
        else:
            res['status'] = 'crash'
            res['exit'] = os.WEXITSTATUS(st) if os.WIFEXITED(st) else -1
    res['id'] = job.get('id')
    return res


_SCR = None


def _scratch():
    global _SCR
    if _SCR is None:
        from . import seams
        _SCR = seams.scratch_root()
    return _SCR


def main():
    proto = os.fdopen(os.dup(1), 'w')
    devnull = os.open(os.devnull, os.O_WRONLY)
    os.dup2(devnull, 1)
    dbg = os.environ.get('VERIF_DEBUG_LOG')
    if dbg:
        fd = os.open(dbg, os.O_WRONLY | os.O_CREAT | os.O_APPEND, 0o644)
        os.dup2(fd, 2)
    else:
        os.dup2(devnull, 2)
    try:
        engine = _setup()
    except BaseException as e:  # noqa
        proto.write(json.dumps({'ready': False, 'error': '%s: %s' % (
            type(e).__name__, e)}) + '\n')
        proto.flush()
        return 2
    proto.write(json.dumps({'ready': True,
                            'hashseed': os.environ.get('PYTHONHASHSEED')})
                + '\n')
    proto.flush()
    for line in sys.stdin:
        line = line.strip()
        if not line:
            continue
        job = json.loads(line)
        if job.get('quit'):
            break
        res = run_job(engine, job)
        proto.write(json.dumps(res) + '\n')
        proto.flush()
    return 0


if __name__ == '__main__':
    sys.exit(main())
