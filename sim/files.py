"""Workload files: JSON specs -> in-memory PseudoNetCDF files or files on disk.

Disk files are written by *stub producers* (netCDF4-python directly, or the
reference encoders in sim.refcodec), never by the library under test, so a
writer mutation can not masquerade as a reader/isolation alarm.
"""
import datetime as _dt

import numpy as np

DT = {'f4': np.float32, 'f8': np.float64, 'i4': np.int32, 'i2': np.int16,
      'i1': np.int8, 'i8': np.int64, 'S1': 'S1'}


def jdate_add(yyyyjjj, hhmmss, hours):
    y, j = divmod(int(yyyyjjj), 1000)
    h, rem = divmod(int(hhmmss), 10000)
    m, s = divmod(rem, 100)
    # plain calendar arithmetic with the REAL datetime type
    base = _dt.date(y, 1, 1).toordinal() + (j - 1)
    tot = base * 86400 + h * 3600 + m * 60 + s + int(round(hours * 3600))
    day, sec = divmod(tot, 86400)
    d = _dt.date.fromordinal(day)
    jj = d.toordinal() - _dt.date(d.year, 1, 1).toordinal() + 1
    return d.year * 1000 + jj, (sec // 3600) * 10000 + (sec % 3600 // 60) * 100 + sec % 60


def gen_values(v, shape):
    g = v['gen']
    dt = np.dtype(DT[v['dt']]) if v['dt'] != 'S1' else np.dtype('S1')
    n = int(np.prod(shape)) if len(shape) else 1
    if g[0] == 'lin':
        a = g[1] + g[2] * np.arange(n, dtype='f8')
    elif g[0] == 'vals':
        a = np.array(g[1], dtype='f8')
    elif g[0] == 'uniq':
        a = g[1] + 1.25 * np.arange(n, dtype='f8')
        if dt.kind in 'iu':
            a = g[1] + np.arange(n, dtype='f8')
    elif g[0] == 'edges':      # (n, 2) bounds from centre coordinate lin
        c = g[1] + g[2] * np.arange(shape[0], dtype='f8')
        a = np.stack([c - g[2] / 2., c + g[2] / 2.], axis=1)
    elif g[0] == 'edges1':     # 1-D edges n+1
        a = g[1] - g[2] / 2. + g[2] * np.arange(n, dtype='f8')
    elif g[0] == 'tflag':
        sdate, stime, tstep_h = g[1], g[2], g[3]
        nt, nv = shape[0], shape[1]
        a = np.zeros(shape, dtype='i4')
        for t in range(nt):
            d, tm = jdate_add(sdate, stime, tstep_h * t)
            a[t, :, 0] = d
            a[t, :, 1] = tm
        if len(g) > 4 and g[4]:
            # IOAPI "time independent" sentinel in the first row
            a[0, :, 0] = -635
            a[0, :, 1] = 0
        return a
    elif g[0] == 'chars':
        s = (g[1] * (n // max(1, len(g[1])) + 1))[:n]
        return np.array(list(s), dtype='S1').reshape(shape)
    else:
        raise ValueError(g)
    return a.reshape(shape).astype(dt)


def shape_of(spec, v):
    dl = {d[0]: d[1] for d in spec['dims']}
    return tuple(dl[d] for d in v['dims'])


def attr_value(x):
    """JSON attribute -> python/numpy value (lists become float/int arrays)"""
    if isinstance(x, dict):
        return np.array(x['v'], dtype=DT[x['dt']]) if isinstance(x['v'], list) \
            else np.dtype(DT[x['dt']]).type(x['v'])
    return x


def var_array(spec, v):
    shape = shape_of(spec, v)
    a = gen_values(v, shape)
    if v.get('nonfinite') and a.dtype.kind == 'f' and a.size:
        fl = a.reshape(-1)
        for i, what in v['nonfinite']:
            fl[i % fl.size] = float(what)
    if v.get('mask') == []:
        return np.ma.masked_array(a, fill_value=np.dtype(a.dtype).type(v.get('fill', -999)))
    if v.get('mask') is not None:
        m = np.zeros(a.shape, dtype=bool)
        flat = m.reshape(-1)
        for i in v['mask']:
            if flat.size:
                flat[i % flat.size] = True
        fill = v.get('fill', -999)
        a = np.ma.masked_array(a, mask=m, fill_value=np.dtype(a.dtype).type(fill))
    return a


# --------------------------------------------------------------------------
# in-memory through the library's public constructors
# --------------------------------------------------------------------------
def build_mem(spec):
    import PseudoNetCDF as pnc
    f = pnc.PseudoNetCDFFile()
    for name, n, unl in spec['dims']:
        d = f.createDimension(name, n)
        if unl:
            d.setunlimited(True)
    for k, x in spec.get('attrs', {}).items():
        setattr(f, k, attr_value(x))
    coords = []
    for v in spec['vars']:
        a = var_array(spec, v)
        kw = {}
        if isinstance(a, np.ma.MaskedArray):
            kw['fill_value'] = a.fill_value
        var = f.createVariable(v['name'], np.dtype(a.dtype).char, tuple(v['dims']), **kw)
        for k, x in v.get('attrs', {}).items():
            setattr(var, k, attr_value(x))
        if a.size or a.ndim == 0:
            var[...] = a
        if v.get('coord'):
            coords.append(v['name'])
    if coords:
        f.setCoords(coords)
    return f


def build_ioapi_mem(spec):
    """IOAPI convention in memory via ioapi_base.from_arrays."""
    from PseudoNetCDF.cmaqfiles import ioapi_base
    nt, nz, ny, nx = spec['shape']
    arrs = {}
    for i, name in enumerate(spec['vars']):
        n = nt * nz * ny * nx
        arrs[name] = (1000. * (i + 1) + 1.25 * np.arange(n, dtype='f4')
                      ).reshape(nt, nz, ny, nx).astype('f4')
    fa = dict(SDATE=spec['sdate'], STIME=spec['stime'], TSTEP=spec['tstep'],
              XORIG=-100000.0, YORIG=-50000.0, XCELL=12000.0, YCELL=12000.0,
              VGLVLS=np.linspace(1, 0, nz + 1).astype('f4'),
              VGTOP=np.float32(5000.))
    f = ioapi_base.from_arrays(fileattrs=fa, **arrs)
    return f


# --------------------------------------------------------------------------
# stub producers on disk
# --------------------------------------------------------------------------
def write_netcdf(spec, path, fmt):
    import netCDF4
    ds = netCDF4.Dataset(path, 'w', format=fmt)
    try:
        for name, n, unl in spec['dims']:
            ds.createDimension(name, None if unl else n)
        for k, x in spec.get('attrs', {}).items():
            ds.setncattr(k, attr_value(x))
        for v in spec['vars']:
            a = var_array(spec, v)
            kw = {}
            if isinstance(a, np.ma.MaskedArray):
                kw['fill_value'] = a.fill_value
            dtc = 'S1' if v['dt'] == 'S1' else np.dtype(a.dtype)
            var = ds.createVariable(v['name'], dtc, tuple(v['dims']), **kw)
            for k, x in v.get('attrs', {}).items():
                var.setncattr(k, attr_value(x))
            if a.size or a.ndim == 0:
                var[...] = a
    finally:
        ds.close()


def write_ioapi_netcdf(spec, path, fmt='NETCDF3_CLASSIC'):
    """IOAPI gridded netCDF written directly with netCDF4 (stub producer)."""
    import netCDF4
    nt, nz, ny, nx = spec['shape']
    names = spec['vars']
    ds = netCDF4.Dataset(path, 'w', format=fmt)
    try:
        ds.createDimension('TSTEP', None)
        ds.createDimension('DATE-TIME', 2)
        ds.createDimension('LAY', nz)
        ds.createDimension('VAR', len(names))
        ds.createDimension('ROW', ny)
        ds.createDimension('COL', nx)
        at = dict(
            IOAPI_VERSION='stub'.ljust(80), EXEC_ID='stub'.ljust(80),
            FTYPE=np.int32(1), CDATE=np.int32(2090001), CTIME=np.int32(0),
            WDATE=np.int32(2090001), WTIME=np.int32(0),
            SDATE=np.int32(spec['sdate']), STIME=np.int32(spec['stime']),
            TSTEP=np.int32(spec['tstep']), NTHIK=np.int32(1),
            NCOLS=np.int32(nx), NROWS=np.int32(ny), NLAYS=np.int32(nz),
            NVARS=np.int32(len(names)), GDTYP=np.int32(2),
            P_ALP=33., P_BET=45., P_GAM=-97., XCENT=-97., YCENT=40.,
            XORIG=-100000., YORIG=-50000., XCELL=12000., YCELL=12000.,
            VGTYP=np.int32(7), VGTOP=np.float32(5000.),
            VGLVLS=np.linspace(1, 0, nz + 1).astype('f4'),
            GDNAM='STUBGRID'.ljust(16), UPNAM='STUB'.ljust(16),
            FILEDESC='stub'.ljust(80), HISTORY='')
        for k, x in at.items():
            ds.setncattr(k, x)
        ds.setncattr('VAR-LIST', ''.join(n.ljust(16) for n in names))
        tf = ds.createVariable('TFLAG', 'i4', ('TSTEP', 'VAR', 'DATE-TIME'))
        tf.units = '<YYYYDDD,HHMMSS>'
        tf.long_name = 'TFLAG'.ljust(16)
        tf.var_desc = 'Timestep-valid flags'.ljust(80)
        hrs = (spec['tstep'] // 10000) + (spec['tstep'] % 10000 // 100) / 60.
        tfa = gen_values({'gen': ['tflag', spec['sdate'], spec['stime'], hrs],
                          'dt': 'i4'}, (nt, len(names), 2))
        tf[:] = tfa
        for i, name in enumerate(names):
            v = ds.createVariable(name, 'f4', ('TSTEP', 'LAY', 'ROW', 'COL'))
            v.long_name = name.ljust(16)
            v.units = 'ppmV'.ljust(16)
            v.var_desc = name.ljust(80)
            n = nt * nz * ny * nx
            v[:] = (1000. * (i + 1) + 1.25 * np.arange(n, dtype='f4')
                    ).reshape(nt, nz, ny, nx)
    finally:
        ds.close()


# --------------------------------------------------------------------------
# seeded spec generation (swarm style: sizes and shapes vary per run)
# --------------------------------------------------------------------------
def gen_spec(rng, style=None):
    """Generic netCDF-like file: 2-4 dimensions, coordinate variables
    (ascending/descending, with/without bounds), data variables with
    differing dimension subsets, masked and unmasked, a time variable or a
    TFLAG variable."""
    style = style or rng.choice(['cf', 'cf', 'tflag', 'plain'])
    dims = []
    vars_ = []
    attrs = {'title': 'run file %d' % rng.randrange(1000),
             'ival': {'dt': 'i4', 'v': rng.randrange(-5, 100)},
             'fval': {'dt': 'f8', 'v': rng.randrange(1, 100) / 8.},
             'farr': {'dt': 'f4', 'v': [rng.randrange(10) / 4. for _ in range(3)]}}
    base = [1000.]

    def nb():
        base[0] += 1000.
        return base[0]
    if style == 'tflag':
        nt = rng.randrange(1, 5)
        nvar = rng.randrange(1, 3)
        dims = [['TSTEP', nt, True], ['VAR', nvar, False],
                ['DATE-TIME', 2, False],
                ['LAY', rng.randrange(1, 4), False],
                ['ROW', rng.randrange(1, 5), False],
                ['COL', rng.randrange(2, 5), False]]
        sdate = rng.choice([1970001, 2004060, 2003365, 2000366, 2012059])
        stime = rng.choice([0, 120000, 230000])
        sentinel = rng.random() < 0.35
        vars_.append({'name': 'TFLAG', 'dt': 'i4',
                      'dims': ['TSTEP', 'VAR', 'DATE-TIME'],
                      'gen': ['tflag', sdate, stime, 1, sentinel],
                      'attrs': {'units': '<YYYYDDD,HHMMSS>',
                                'long_name': 'TFLAG'.ljust(16)},
                      'coord': True})
        attrs['TSTEP'] = {'dt': 'i4', 'v': 10000}
        for i in range(nvar):
            vars_.append({'name': 'V%d' % i, 'dt': 'f4',
                          'dims': ['TSTEP', 'LAY', 'ROW', 'COL'],
                          'gen': ['uniq', nb()],
                          'attrs': {'units': 'ppmV'.ljust(16),
                                    'long_name': ('V%d' % i).ljust(16)}})
        return {'style': style, 'dims': dims, 'attrs': attrs, 'vars': vars_}
    tname = 'time'
    nt = rng.randrange(2, 6)
    dims.append([tname, nt, rng.random() < 0.6])
    spatial = rng.sample(['lev', 'lat', 'lon'], rng.randrange(1, 4))
    order = [d for d in ['lev', 'lat', 'lon'] if d in spatial]
    for d in order:
        dims.append([d, rng.randrange(1 if d == 'lev' else 2, 6), False])
    dl = {d[0]: d[1] for d in dims}
    if style != 'plain':
        units = rng.choice(['hours since 2000-01-01 00:00:00',
                            'days since 1999-12-31 00:00:00',
                            'seconds since 1985-01-01 00:00:00 UTC',
                            'hours since 2004-02-28 12:00:00'])
        step = rng.choice([1., 3., 0.5, 24.])
        vars_.append({'name': tname, 'dt': 'f8', 'dims': [tname],
                      'gen': ['lin', float(rng.randrange(0, 100)), step],
                      'attrs': {'units': units,
                                # model calendars without (or with only) leap years are
                                # decoded by a separate branch of getTimes
                                'calendar': rng.choice(['standard', 'standard', 'gregorian',
                                                        'noleap', '365_day', 'all_leap',
                                                        '366_day'])},
                      'coord': True})
    for d in order:
        if rng.random() < 0.8 and dl[d] >= 2:
            step = rng.choice([1., 0.5, 2.5, -1., -2.])
            start = float(rng.randrange(-20, 40)) + 0.5
            uniform = rng.random() < 0.75
            if uniform:
                gen = ['lin', start, step]
            else:
                vals = [start]
                for i in range(dl[d] - 1):
                    vals.append(vals[-1] + step * rng.choice([1, 2, 3]))
                gen = ['vals', vals]
            vars_.append({'name': d, 'dt': rng.choice(['f8', 'f4']),
                          'dims': [d], 'gen': gen,
                          'attrs': {'units': 'degrees'}, 'coord': True})
            if uniform and rng.random() < 0.4:
                kind = rng.choice(['n2', 'edge'])
                if kind == 'n2':
                    if not any(x[0] == 'nv' for x in dims):
                        dims.append(['nv', 2, False])
                    vars_.append({'name': d + '_bounds', 'dt': 'f8',
                                  'dims': [d, 'nv'],
                                  'gen': ['edges', start, step],
                                  'attrs': {'units': 'degrees'}, 'coord': True})
                else:
                    dims.append([d + '_edge', dl[d] + 1, False])
                    vars_.append({'name': d + '_bnds', 'dt': 'f8',
                                  'dims': [d + '_edge'],
                                  'gen': ['edges1', start, step],
                                  'attrs': {'units': 'degrees'}, 'coord': True})
    nv = rng.randrange(1, 5)
    alld = [tname] + order
    for i in range(nv):
        k = rng.randrange(1, len(alld) + 1)
        vd = [d for d in alld if d in rng.sample(alld, k)]
        if i == 0:
            vd = alld
        dt = rng.choice(['f4', 'f4', 'f8', 'i4'])
        v = {'name': 'ABCDEFG'[i], 'dt': dt, 'dims': vd,
             'gen': ['uniq', nb()],
             'attrs': {'units': rng.choice(['ppb', 'K', 'm s-1']),
                       'long_name': 'var %d' % i}}
        if rng.random() < 0.35:
            n = int(np.prod([dl[d] for d in vd]))
            v['mask'] = sorted(set(rng.randrange(n) for _ in range(rng.randrange(1, 4))))
            v['fill'] = rng.choice([-999, -9999, 1e20]) if dt != 'i4' else -999
            if rng.random() < 0.25:
                v['mask'] = []        # masked type, nothing masked at the moment
        if dt != 'i4' and rng.random() < 0.12:
            # model output does contain non-finite numbers now and then
            n = int(np.prod([dl[d] for d in vd]))
            v['nonfinite'] = [[rng.randrange(max(1, n)), rng.choice(['nan', 'inf', '-inf'])]
                              for _ in range(rng.randrange(1, 3))]
        vars_.append(v)
    if rng.random() < 0.2:
        vars_.append({'name': 'scalar', 'dt': 'f8', 'dims': [],
                      'gen': ['uniq', nb()], 'attrs': {'units': '1'}})
    return {'style': style, 'dims': dims, 'attrs': attrs, 'vars': vars_}


def gen_ioapi_spec(rng):
    nt = rng.randrange(1, 5)
    nz = rng.randrange(1, 4)
    ny = rng.randrange(1, 5)
    nx = rng.randrange(2, 5)
    nv = rng.randrange(1, 4)
    sdate = rng.choice([1970001, 2004060, 2003365, 2000366, 2012059, 2011001])
    stime = rng.choice([0, 120000, 230000, 60000])
    return {'style': 'ioapi', 'shape': [nt, nz, ny, nx],
            'vars': ['O3', 'NO2', 'CO', 'PM25'][:nv], 'sdate': sdate,
            'stime': stime, 'tstep': 10000}
