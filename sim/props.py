"""Per-property configuration of the checks (harness, budgets, evidence text)."""

REAL = ['PseudoNetCDF (working tree /repo/src)', 'numpy', 'netCDF4-python',
        'netcdf-c', 'HDF5', 'CPython refcounting and cyclic collector '
        '(only the trigger is simulated)', 'Linux VFS on a scratch file system']

PROPS = {
    'C05': {
        'harness': 'iso', 'level': 'exploration',
        'runs': {'quick': 1600, 'thorough': 60000},
        'cpu_s': 120, 'wall_s': 600,
        'rule': ('one run = one seeded schedule of 10-60 steps over a pool of '
                 '2-5 disk files (netCDF-3/4, IOAPI netCDF, CAMx gridded) and '
                 '1-3 in-memory files: transformations, queries, writes into '
                 'results, open/close/drop/collect (between and inside library '
                 'calls), clock jumps; after every step every live slot is '
                 'compared with its deep-snapshot model. distinct = distinct '
                 'abstracted trace (sequence of (op, slot kind, lifecycle '
                 'vector, gc-armed)); non-trivial = the trace contains a '
                 'close/drop/collect/clock event or a write into a result '
                 'followed by at least one more operation on a live slot'),
        'components': {'real': REAL,
                       'stub': ['wall clock (SimClock)', 'GC trigger policy',
                                'producers of pool files (netCDF4 direct, '
                                'reference CAMx encoder)']},
        'assumptions': [
            'snapshots compare presented content (dims, attribute values, '
            'dtype, unmasked data, mask, variable attributes); not identity, '
            'attribute order or caches',
            'inplace=True variants, WrapPNC and r+ memmaps are documented to '
            'share state and are not generated',
            'sampling, not proof'],
    },
}

PROPS['C15'] = {
    'harness': 'hist', 'level': 'exploration',
    'runs': {'quick': 1500, 'thorough': 40000},
    'cpu_s': 300, 'wall_s': 900,
    'rule': ('one run = one seeded history of 6-40 steps (auto / explicit / '
             'wrong-format / failing / multi-file / repeated opens, reader '
             'registrations, collections) over a pool of 3-20 files of every '
             'self-describing format under conventional, absent and misleading '
             'suffixes; after every step a seeded subset of the pool is probed '
             'and compared with a pristine forked interpreter that replays only '
             'the registrations. distinct = distinct abstracted trace of (op, '
             'how, content kind, name variant); non-trivial = at least one '
             'history open precedes a probe'),
    'components': {'real': REAL + ['every registered reader\'s isMine and constructor'],
                   'stub': ['producers of pool files (reference encoders, netCDF4)',
                            'memory-less peer: pristine process forked before any open']},
    'assumptions': [
        'the path is part of "the file": the same bytes under another suffix may select another reader; the reference reproduces that',
        'second clause asserted for content-identified formats (gridded, boundary, ICARTT, netCDF-3/4, IOAPI netCDF) under conventional or absent suffix',
        'sampling, not proof'],
}

PROPS['C14'] = {
    'harness': 'crash', 'level': 'fault_enumeration',
    'runs': {'quick': 1400, 'thorough': 8000},
    'cpu_s': 3600, 'wall_s': 3600,
    'rule': ('one run = one generated file (format, grid, layers, species, '
             'steps, start date seeded; every value unique) cut at a set of '
             'byte offsets: quick = every offset within 5 bytes of every '
             'record boundary, step boundary and header end, the first 64 '
             'bytes and a seeded sample of interior offsets; thorough = every '
             'offset of the file for half of the files. Each cut is opened and '
             'fully read by the real reader in a forked child under a CPU '
             'limit. evaluations = cuts judged; distinct = distinct (format, '
             'steps, nx, ny, nz, number of cuts) file traces; non-trivial = '
             'the file was cut and judged at least once'),
    'components': {'real': REAL + ['kernel RLIMIT_CPU enforcement'],
                   'stub': ['producers of the files (reference CAMx encoders)',
                            'crash = byte prefix of the complete file']},
    'assumptions': [
        'a sequential writer interrupted at byte N leaves the N-byte prefix',
        'time flags are compared with the same reader\'s flags for the complete file; data with the producer\'s ground truth',
        'bpch files are read with the memory-mapped bpch1 reader; the side-car tables sit next to the torn file',
        'auto-detection of torn files is not exercised (which reader should claim a fragment is not stated)'],
}

PROPS['C07'] = {
    'harness': 'ack_nc', 'level': 'exploration',
    'runs': {'quick': 2000, 'thorough': 60000},
    'cpu_s': 300, 'wall_s': 900,
    'rule': ('one run = 1-5 save cycles in one process; each cycle draws a '
             'history (clock jumps, collections, earlier compressed saves), a '
             'source file inside the fixed envelope (0-4 dimensions of length '
             '1-5, at most one unlimited, int8/16/32, float32/64 and char '
             'variables incl. scalars, masked variables with fill given as '
             'fill_value or missing_value, str/int32/float32/float64/array '
             'attributes), a flavour and compression level, takes the durable '
             'image at the instant save() returns, applies a handle schedule '
             '(retain / close / close+drop / drop / drop+collect) and reopens '
             'ack image, post-schedule file and final file. distinct = '
             'abstracted trace of (op, flavour, schedule, image, lifecycle '
             'vector); non-trivial = a handle-schedule step lies between save '
             'and a reopen'),
    'components': {'real': REAL, 'stub': ['crash = byte copy of the file at acknowledgement',
                                          'wall clock', 'GC trigger']},
    'assumptions': [
        'a byte copy of a local file equals what survives a process kill at that instant (not power loss)',
        '_FillValue on disk is netCDF\'s encoding of the mask, not a user attribute; 1-element array attributes and scalars are the same thing on disk',
        'a second close() of the raw netCDF4 handle returned by save() is upstream code and not generated',
        'input variety is workload inside a fixed envelope, not the deciding dimension'],
}

_CAMX_RULE = ('one run = 1-4 write cycles in one process over the CAMx binary '
              'formats (gridded with every NAME variant, boundary, temperature, '
              'wind, height/pressure, humidity, vertical diffusivity, generic '
              '3-D, cloud/rain, land use): an in-memory CAMx-convention source is built inside the '
              'fixed envelope (1-4 species with names up to 10 characters, nx, '
              'ny 1-5, nz 1-3, 1-4 hourly steps from dates 1970-2069 incl. day, '
              'year, leap-day and century roll-overs, float32 payload with '
              'denormals, -0 and extremes), written by the library writer; the '
              'durable image at the instant the writer returns is copied, a '
              'handle schedule applied (retain/close/close twice/drop/'
              'drop+collect), then ack image, post-schedule file and final '
              'file are judged; the re-read file is re-written after clock '
              'jumps, collections and unrelated writes and compared byte for '
              'byte; the reference-encoded twin is read by the library. '
              'distinct = abstracted trace of (op, format, schedule, image, '
              'lifecycle vector); non-trivial = a handle-schedule step lies '
              'between write and a judged image')
PROPS['C08'] = {
    'harness': 'ack_camx', 'level': 'exploration',
    'runs': {'quick': 2800, 'thorough': 80000},
    'cpu_s': 300, 'wall_s': 900, 'rule': _CAMX_RULE,
    'components': {'real': REAL, 'stub': ['crash = byte copy of the file at acknowledgement',
                                          'wall clock', 'GC trigger',
                                          'peer program: reference CAMx codec']},
    'assumptions': [
        'a byte copy of a local file equals what survives a process kill at that instant',
        'sources carry ETFLAG like files presented by the readers; the point-source format is not covered',
        'input variety is workload inside a fixed envelope, not the deciding dimension'],
}
PROPS['C09'] = dict(PROPS['C08'])
PROPS['C09']['assumptions'] = [
    'the reference codec is written from the CAMx User\'s Guide record lists and validated byte-for-byte (decode, re-encode) against the nine CAMx sample files of the repository',
    'meteorological files carry the time of day as HHMM',
    'same runs and schedule space as C08; the simulator decides which image is judged (the one at acknowledgement), the differential oracle decides the rest']

PROPS['C19'] = {
    'harness': 'ack_icartt', 'level': 'exploration',
    'runs': {'quick': 2500, 'thorough': 80000},
    'cpu_s': 300, 'wall_s': 900,
    'rule': ('one run = 1-3 write cycles: an in-memory 1-D time series (1-20 '
             'records, 1-4 dependent variables, values 1e-30..1e30 incl. '
             'negative and zero, missing codes of up to 7 significant digits, '
             '0-5 header comment attributes, with/without a revision date) is '
             'written by ncf2ffi1001; the durable image at the instant the '
             'writer returns (open text handle, last newline still buffered) '
             'is copied; handle schedule retain/close/drop/drop+collect; ack, '
             'post-schedule and final images are decoded by the reference '
             'FFI-1001 decoder (declared vs actual header/variable counts) and '
             'reopened by the library (explicit and auto-detected, under '
             '.ffi1001/.ict/.txt/no suffix); a second write/read cycle follows '
             'a clock jump across midnight/new year. distinct = abstracted '
             'trace; non-trivial = a handle step lies between write and a '
             'judged image'),
    'components': {'real': REAL, 'stub': ['crash = byte copy at acknowledgement', 'wall clock',
                                          'GC trigger', 'peer: reference FFI-1001 decoder']},
    'assumptions': [
        'variable names are [A-Za-z0-9_] tokens; missing codes have at most 7 significant digits (the format stores %.6e)',
        'a value equal to the missing code is a missing value in this format',
        'input variety is workload inside a fixed envelope'],
}

PROPS['C13'] = {
    'harness': 'cursor', 'level': 'exploration',
    'runs': {'quick': 2000, 'thorough': 60000},
    'cpu_s': 300, 'wall_s': 900,
    'rule': ('one run = one generated file (gridded with every NAME variant, '
             'temperature, height/pressure, humidity, vertical diffusivity, '
             'wind, generic 3-D; nx, ny 1-5, nz 1-3, 1-5 steps, start hours incl. '
             'day/year roll-over) opened by both reader families, a fresh '
             'open+full read of both in a CPU-limited child (termination), '
             'then a seeded access schedule of 5-40 steps: variable reads '
             '(whole / one step / one layer) on either reader, raw record '
             'reads through the record reader\'s cursor (seekandread, '
             'seek+read) in random order, time flags, dimension lengths, '
             'collections, closing the record reader\'s file late; after every '
             'access the reader-with-history is compared with a FRESH reader '
             'of the other family. distinct = abstracted access trace; '
             'non-trivial = both families accepted the file and at least one '
             'scheduled access followed'),
    'components': {'real': REAL, 'stub': ['producer of the files (reference CAMx encoders)',
                                          'GC trigger']},
    'assumptions': [
        'a file on which the record reader raises is not "accepted by both families"; the property makes no claim about it (counted in stats.record_reader_rejects)',
        'gridded EMISSIONS files are surface files (nz=1) and AIRQUALITY files hold one time',
        'data equality is up to length-1 axes, as the property states'],
}

PROPS['C18'] = {
    'harness': 'ack_bpch', 'level': 'exploration',
    'runs': {'quick': 2000, 'thorough': 60000},
    'cpu_s': 300, 'wall_s': 900,
    'rule': ('one run = 1-3 generated "CTM bin 02" files (1-3 time blocks, 1-2 '
             'categories with offsets, 1-3 tracers with differing layer counts '
             '1-3, nested-grid offsets, own tracerinfo/diaginfo tables with '
             'scales 0.5..1e12), each in its own directory; operations: scaled '
             'read (values == raw*scale, unit/category/tracer ids/time bounds/'
             'grid header), unscaled read -> write -> bytes identical (judged '
             'at the acknowledgement image and after a handle schedule), '
             'scaled read -> write -> read, alternative reader comparison; the '
             'output directory is fresh, already holds the same tables, or '
             'holds foreign tables left by an earlier write; the process cwd '
             'moves between directories with and without foreign tables. '
             'distinct = abstracted trace; non-trivial = a write with a handle '
             'schedule was judged'),
    'components': {'real': REAL, 'stub': ['peer: reference CTM-bin-02 codec and table writer',
                                          'crash = byte copy at acknowledgement',
                                          'ambient disk state (side-car tables, cwd)']},
    'assumptions': [
        'files keep their own tables next to them; reading a file whose directory holds foreign tables is the format\'s convention and is not judged',
        'scaled values are compared to raw*scale with relative tolerance 2e-6 (float32 arithmetic)'],
}

for _p in PROPS.values():
    # wall-clock guard: runs not started before the deadline are skipped and
    # counted in the evidence (runs_skipped_budget); a loaded machine explores
    # less, it never turns a timeout into a verdict
    _p.setdefault('budget_s', {'quick': 240, 'thorough': 6 * 3600})

MANIFEST_TEXT = {
    'C05': {
        'text': ('Seeded search over schedules: thousands of simulated runs, '
                 'each a different interleaving of transformations, queries, '
                 'writes into results, open/close/drop/garbage-collection '
                 '(between and inside library calls) and clock jumps over '
                 'several disk-backed and in-memory files; every live file is '
                 'compared with an independent deep snapshot after every '
                 'step. This is the level the property asks for: three of its '
                 'quantifiers are histories and schedules (when the collector '
                 'runs, close order/multiplicity, later writes), which only a '
                 'simulator that owns the GC trigger, handle lifecycle and '
                 'clock can reach. Evidence, not proof.'),
        'design_ref': 'DESIGN.md section 4 (C05)',
        'note': ('Trusted: snapshot/compare code, netCDF4 stub producers, '
                 'reference CAMx encoder. Not generated: inplace=True, '
                 'WrapPNC, r+ memmaps (documented sharing); a second close() '
                 'of the raw netCDF4.Dataset returned by save() (upstream '
                 'code).'),
        'technique': 'deterministic simulation: seeded schedule + GC/close/clock fault injection against a per-slot snapshot model',
    },
}

MANIFEST_TEXT['C15'] = {
    'text': ('Refinement against a memory-less reference under seeded '
             'histories: after every step of a random history of opens '
             '(auto, explicit, wrong-format, failing, multi-file, repeated up '
             'to 50x), reader registrations and collections, pool files are '
             'probed and reader class, presented class and content digest are '
             'compared with the answer of a pristine process forked before any '
             'open that replays only the registrations; plus auto == explicit '
             'for content-identified formats. The property quantifies over '
             'histories of process-global registry state, which is exactly '
             'what the simulator varies. Evidence, not proof.'),
    'design_ref': 'DESIGN.md section 4 (C15)',
    'note': ('Trusted: the fork gives the reference the same code and reader '
             'set and no history; stub producers for pool files. The check '
             'never decides which reader is "right", only that history does '
             'not change the answer.'),
    'technique': 'deterministic simulation: seeded open/registration histories checked against a history-free forked reference process',
}

MANIFEST_TEXT['C14'] = {
    'text': ('Crash-point enumeration: for generated files of every CAMx '
             'binary format with a memmap reader (gridded, boundary, '
             'temperature, wind, generic 3-D incl. humidity / vertical '
             'diffusivity, height/pressure, cloud/rain, land use) and of bpch the fault "producer stopped at '
             'byte N" is injected at every offset near every structural '
             'boundary plus a seeded interior sample (quick) or at every '
             'offset of the file (thorough, exhaustive per file); the real '
             'reader opens and fully reads each torn image in a forked child '
             'under a CPU limit and must raise or expose only complete steps '
             'identical to the producer\'s ground truth. Enumeration of the '
             'crash-point space is what the property quantifies over; file '
             'shapes are sampled.'),
    'design_ref': 'DESIGN.md section 4 (C14)',
    'note': ('Trusted: reference encoders (validated byte-for-byte against '
             'the repo samples), prefix crash model. Reader families: the '
             'memory-mapped classes, pncopen, and (7 formats) the sequential '
             'record readers; a read that raised is retried once on the same '
             'object and what the retry returns is judged. Five recorded known '
             'findings (four inherent format ambiguities on boundary cuts, '
             'record readers not verifying the final trailing marker) are '
             'continued past inside runs so the remaining offsets are still '
             'judged; the evidence lists judged / not-judged (format, family) '
             'combinations.'),
    'technique': 'deterministic simulation: enumeration of crash points (byte prefixes) with the real reader in CPU-limited forked children against producer ground truth',
}

MANIFEST_TEXT['C07'] = {
    'text': ('Seeded search over what lies between save() and a later open: '
             'the durable image at the acknowledgement (byte copy taken the '
             'instant save returns), the returned handle\'s schedule (retain, '
             'close, drop, drop+collect), earlier saves in the process '
             '(compression, class-level writer options), clock jumps, '
             'collections and handle-id recycling; every image is reopened '
             '(auto and explicit) and compared field by field with the '
             'in-memory source, over all four flavours and compression on/off. '
             'The property is a round trip across the disk, whose outcome '
             'depends on flush/sync and handle lifetime that unit tests never '
             'observe; file shapes are workload inside a fixed envelope.'),
    'design_ref': 'DESIGN.md section 5 (C07)',
    'note': ('Trusted: snapshot/compare code; a byte copy equals what '
             'survives a process kill (not power loss). _FillValue is the '
             'encoding of the mask; scalars and 1-element arrays are the same '
             'attribute on disk.'),
    'technique': 'deterministic simulation: crash-at-acknowledgement image + handle lifecycle schedule, reopened file compared with the in-memory source',
}

MANIFEST_TEXT['C08'] = {
    'text': ('Seeded search over write/read/re-write cycles of every CAMx '
             'binary format with a working writer, judged at the durable image '
             'the writer leaves at the instant it returns (all writers return '
             'an open, partly buffered handle), after each handle schedule '
             '(retain, close, close twice, drop, drop+collect) and at the end '
             'of the process; the re-read file is re-written after clock '
             'jumps, collections and unrelated writes and must be byte '
             'identical. Inputs (species, grids, dates incl. roll-overs, '
             'special float32 values) are workload inside a fixed envelope. '
             'Evidence, not proof.'),
    'design_ref': 'DESIGN.md section 5 (C08)',
    'note': ('Trusted: scenario-built in-memory sources, byte copy = crash '
             'image. The point-source format is not covered. One recorded '
             'known finding (wind on a one-cell grid).'),
    'technique': 'deterministic simulation: crash-at-acknowledgement image + handle schedule + history between write and re-write; round-trip and byte-identity oracles',
}
MANIFEST_TEXT['C09'] = {
    'text': ('Differential check against a stub peer on the far side of the '
             'disk: every durable image a library writer leaves (at '
             'acknowledgement, after the handle schedule, at process end) is '
             'walked by an independent Fortran-record walker (markers agree '
             'and tile the file) and decoded by a reference codec written '
             'from the CAMx User\'s Guide; conversely the reference-encoded '
             'twin of every generated file is read by the library reader. '
             'Shares C08\'s runs; the simulator contributes which image is '
             'judged and the peer, the differential oracle decides the rest.'),
    'design_ref': 'DESIGN.md section 5 (C09)',
    'note': ('Trusted: the reference codec (validated byte-for-byte against '
             'the 9 sample files). bpch is covered under C18/C14; the '
             'point-source format is not covered.'),
    'technique': 'deterministic simulation: crash-at-acknowledgement images judged by an independent reference codec (stub peer), both directions',
}

MANIFEST_TEXT['C19'] = {
    'text': ('Seeded search over ICARTT write/read cycles judged at the '
             'durable image the writer leaves when it returns (an open text '
             'handle whose last newline is still in Python\'s buffer), after '
             'each handle schedule and at process end, reopened explicitly and '
             'by auto-detection under several suffixes, decoded independently '
             'for the declared header/variable counts, with a second cycle '
             'after clock jumps across midnight/new year (default revision '
             'date). Inputs are workload inside a fixed envelope.'),
    'design_ref': 'DESIGN.md section 5 (C19)',
    'note': ('Trusted: reference FFI-1001 decoder; byte copy = crash image. '
             'The writer counts the column-header line in NLHEAD but not in '
             'the normal-comment count; the property only states NLHEAD and '
             'the variable count, so that is accepted.'),
    'technique': 'deterministic simulation: crash-at-acknowledgement image of a buffered text handle + handle schedule + simulated clock across two write/read cycles',
}

MANIFEST_TEXT['C13'] = {
    'text': ('Seeded search over access schedules: for generated files of '
             'every format with both reader families, variable reads, raw '
             'record reads through the record reader\'s hidden cursor '
             '(seekandread / seek+read in random order, repeats), time flags, '
             'dimension lengths, collections and a late close of the record '
             'reader\'s file are interleaved; after every access the reader '
             'with history must agree with a fresh reader of the other '
             'family, and termination is enforced by a CPU-limited child for '
             'the fresh open+read and a CPU-time watchdog per access. The '
             'schedule is what the simulator contributes: the answer must not '
             'depend on what was read before.'),
    'design_ref': 'DESIGN.md section 5 (C13)',
    'note': ('Trusted: reference encoders as file source. A file counts as '
             'accepted when both families open and read it (counted '
             'otherwise); a reader that opened a file must finish its time '
             'listing even if reading the data raised. Every disagreement is '
             'attributed against the producer\'s truth (which fresh reader is '
             'off), and the recorded known findings - all in the deprecated '
             'timetuple arithmetic of the record readers: no calendar across a '
             'year end, non-hourly steps, gridded files ending past midnight, '
             'wind on grids of <= 3 cells - match only when the record reader '
             'alone is off.'),
    'technique': 'deterministic simulation: seeded access schedule over the record reader\'s hidden cursor, compared step by step with a fresh reader of the other family; CPU-limited termination probe',
}

MANIFEST_TEXT['C18'] = {
    'text': ('Seeded search over bpch read / write cycles in which the '
             'simulator owns the ambient disk state the format depends on '
             '(side-car tracer tables next to the file, left by earlier '
             'writes, or in the current working directory), the durable image '
             'at the instant the writer returns, the handle schedule and '
             'collections; oracles: unscaled read -> write is byte identical, '
             'scaled read equals raw*scale with the table\'s unit, write -> '
             'read reproduces tracer data, time bounds, ids and grid header; '
             'files come from an independent CTM-bin-02 encoder.'),
    'design_ref': 'DESIGN.md section 5 (C18)',
    'note': ('Trusted: reference bpch codec (decode/re-encode of the repo '
             'sample is byte identical). Two recorded known findings: the '
             'alternative reader bpch2 raises on every file in this '
             'environment; side-cars are not overwritten.'),
    'technique': 'deterministic simulation: ambient disk state (side-car tables, cwd) + crash-at-acknowledgement image + handle schedule; byte-identity and scaling oracles against a reference codec',
}

NOT_APPLICABLE = {
    'C01': 'pure function of (file, operation sequence): no clock, handle, finaliser, registry or disk state enters any conjunct, so there is no schedule or fault to sample',
    'C02': 'hyperslab selection is a pure function of arrays and selectors; nothing for a simulator to schedule or fault',
    'C03': 'axis reductions are pure functions of arrays and reducer',
    'C04': 'concatenation/splitting is in-memory and pure; the multi-file helpers only add pncopen, whose history dependence is decided under C15',
    'C06': 'element-wise arithmetic, eval and mask are pure functions of the operands (the aliasing corner of eval is decided under C05)',
    'C10': 'every conjunct is a pure function of file and operation sequence; the clock touches only CDATE/CTIME/WDATE/WTIME and hash order only the order of VAR-LIST, neither of which the property mentions',
    'C11': 'window georeferencing is pure arithmetic on attributes and indices',
    'C12': 'time decoding is a pure function of the stored numbers and units',
    'C16': 'lookup results are a pure function of coordinate and query; its one impurity (in-place shift of the coordinate) is an isolation defect, detected and fixed under C05',
    'C17': 'interpolation weights and conservation are algebraic laws over grids',
    'C20': 'worst-case numerical bound over fields; the file clauses involve a stateless memmap reader and a memmap writer whose flush is unobservable inside one OS instance, so no crash or schedule the simulator can produce changes the verdict',
}

# claimed by DESIGN.md but whose check is not built/registered yet
PENDING = {
}
