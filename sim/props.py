"""Per-property configuration of the checks (harness, budgets, evidence text)."""

REAL = ['PseudoNetCDF (working tree /repo/src)', 'numpy', 'netCDF4-python',
        'netcdf-c', 'HDF5', 'CPython refcounting and cyclic collector '
        '(only the trigger is simulated)', 'Linux VFS on a scratch file system']

PROPS = {
    'C05': {
        'harness': 'iso', 'level': 'exploration',
        'runs': {'quick': 1600, 'thorough': 60000},
        'cpu_s': 120, 'wall_s': 600,
        'rule': ('one run = one seeded schedule of 10-60 steps over a pool of '
                 '2-5 disk files (netCDF-3/4, IOAPI netCDF, CAMx gridded) and '
                 '1-3 in-memory files: transformations, queries, writes into '
                 'results, open/close/drop/collect (between and inside library '
                 'calls), clock jumps; after every step every live slot is '
                 'compared with its deep-snapshot model. distinct = distinct '
                 'abstracted trace (sequence of (op, slot kind, lifecycle '
                 'vector, gc-armed)); non-trivial = the trace contains a '
                 'close/drop/collect/clock event or a write into a result '
                 'followed by at least one more operation on a live slot'),
        'components': {'real': REAL,
                       'stub': ['wall clock (SimClock)', 'GC trigger policy',
                                'producers of pool files (netCDF4 direct, '
                                'reference CAMx encoder)']},
        'assumptions': [
            'snapshots compare presented content (dims, attribute values, '
            'dtype, unmasked data, mask, variable attributes); not identity, '
            'attribute order or caches',
            'inplace=True variants, WrapPNC and r+ memmaps are documented to '
            'share state and are not generated',
            'sampling, not proof'],
    },
}
