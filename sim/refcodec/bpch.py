"""Reference encoder/decoder for GEOS-Chem binary punch files ("CTM bin 02"),
written from the GEOS-Chem bpch documentation.  Independent of the library.

  rec  FTI   character*40 = 'CTM bin 02'
  rec  TITLE character*80
  per data block:
    rec  MODELNAME a20, LONRES r4, LATRES r4, HALFPOLAR i4, CENTER180 i4
    rec  CATEGORY a40, TRACER i4, UNIT a40, TAU0 r8, TAU1 r8, RESERVED a40,
         NI NJ NL i4, IFIRST JFIRST LFIRST i4, NSKIP i4
    rec  ARRAY(NI, NJ, NL) r4          (I fastest)

Side-car tables (fixed-width text):
  tracerinfo.dat  NAME a8,1x, FULLNAME a30, MOLWT e10, C i3, TRACER i9, SCALE e10, 1x, UNIT a
  diaginfo.dat    OFFSET i8, 1x, CATEGORY a40, 1x, COMMENT a
"""
import struct

import numpy as np

from .fortran import pack_record, walk, RecordError


def encode(doc):
    out = [pack_record(doc.get('ftype', 'CTM bin 02').ljust(40).encode('ascii')),
           pack_record(doc.get('title', 'stub producer').ljust(80).encode('ascii'))]
    off = sum(len(x) for x in out)
    header_end = off
    ends = []
    block_ends = []
    for blocks in doc['times']:
        for b in blocks:
            a = np.asarray(b['data'], dtype='>f4')     # (nl, nj, ni)
            nl, nj, ni = a.shape
            r1 = pack_record(doc['modelname'].ljust(20).encode('ascii') +
                             struct.pack('>ffii', doc['modelres'][0], doc['modelres'][1],
                                         doc['halfpolar'], doc['center180']))
            r2 = pack_record(b['category'].ljust(40).encode('ascii') +
                             struct.pack('>i', b['tracer']) +
                             b['unit'].ljust(40).encode('ascii') +
                             struct.pack('>dd', b['tau0'], b['tau1']) +
                             b.get('reserved', '').ljust(40).encode('ascii') +
                             struct.pack('>iiiiii', ni, nj, nl, *b.get('start', (1, 1, 1))) +
                             struct.pack('>i', a.size * 4 + 8))
            r3 = pack_record(a.tobytes())
            for r in (r1, r2, r3):
                out.append(r)
                off += len(r)
            block_ends.append(off)
        ends.append(off)
    return b''.join(out), {'header_end': header_end, 'step_ends': ends,
                           'block_ends': block_ends}


def decode(buf):
    recs = walk(buf)
    if len(recs) < 2 or len(recs[0][1]) != 40 or len(recs[1][1]) != 80:
        raise RecordError('bad bpch file header')
    doc = {'ftype': recs[0][1].decode('ascii').strip(),
           'title': recs[1][1].decode('ascii').strip(), 'blocks': []}
    body = recs[2:]
    if len(body) % 3:
        raise RecordError('%d records after the header is not a multiple of 3' % len(body))
    for i in range(0, len(body), 3):
        p1, p2, p3 = body[i][1], body[i + 1][1], body[i + 2][1]
        if len(p1) != 36 or len(p2) != 168:
            raise RecordError('data block header sizes %d/%d' % (len(p1), len(p2)))
        lonres, latres, hp, c180 = struct.unpack('>ffii', p1[20:])
        tracer, = struct.unpack('>i', p2[40:44])
        tau0, tau1 = struct.unpack('>dd', p2[84:100])
        ni, nj, nl, i0, j0, l0, nskip = struct.unpack('>iiiiiii', p2[140:168])
        if len(p3) != ni * nj * nl * 4:
            raise RecordError('array record has %d bytes, header says %dx%dx%d' % (
                len(p3), ni, nj, nl))
        if nskip != len(p3) + 8:
            raise RecordError('NSKIP %d but the array record occupies %d bytes' % (
                nskip, len(p3) + 8))
        doc['blocks'].append({
            'modelname': p1[:20].decode('ascii').strip(), 'modelres': (lonres, latres),
            'halfpolar': hp, 'center180': c180,
            'category': p2[:40].decode('ascii').strip(), 'tracer': tracer,
            'unit': p2[44:84].decode('ascii').strip(), 'tau0': tau0, 'tau1': tau1,
            'reserved': p2[100:140].decode('ascii').strip(),
            'start': (i0, j0, l0),
            'data': np.frombuffer(p3, dtype='>f4').reshape(nl, nj, ni)})
    return doc


def tracerinfo_text(tracers):
    """tracers: [{'name','fullname','molwt','c','id','scale','unit'}]"""
    L = ['# stub tracerinfo.dat', '# NAME     FULLNAME']
    for t in tracers:
        L.append('%-8s %-30s%10.3E%3d%9d%10.3E %s' % (
            t['name'][:8], t.get('fullname', t['name'])[:30], t.get('molwt', 4.8e-2),
            t.get('c', 1), t['id'], t['scale'], t['unit']))
    return '\n'.join(L) + '\n'


def diaginfo_text(cats):
    """cats: [{'offset','category','comment'}]"""
    L = ['# stub diaginfo.dat']
    for c in cats:
        L.append('%8d %-40s %s' % (c['offset'], c['category'][:40], c.get('comment', '')))
    return '\n'.join(L) + '\n'
