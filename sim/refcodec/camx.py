"""Reference encoders/decoders for CAMx binary formats, written from the CAMx
User's Guide record lists (big-endian Fortran unformatted).  Shares no code
with PseudoNetCDF.

Gridded (AVERAGE / EMISSIONS / INSTANT / AIRQUALITY):
  rec1  name(10a4) note(60a4) itzon nspec ibdate btime iedate etime
  rec2  plon plat iutm xorg yorg delx dely nx ny nz iproj istag tlat1 tlat2 rdum
  rec3  ione ione nx ny
  rec4  (mspec(10a4), l=1..nspec)
  per time:
    rec   ibdate btime iedate etime
    per species l, per layer k:
      rec ione mspec(10a4) ((conc(i,j,k,l), i=1..nx), j=1..ny)
"""
import struct

import numpy as np

from .fortran import pack_record, walk, str4, unstr4, RecordError


def yyjjj(yyyyjjj):
    return int(yyyyjjj) % 100000


def add_hours(yyyyjjj, hour, dh):
    """(YYYYJJJ, float hour) + dh hours with calendar roll-over."""
    import datetime as dt
    y, j = divmod(int(yyyyjjj), 1000)
    base = dt.date(y, 1, 1).toordinal() + j - 1
    tot = base * 24.0 + hour + dh
    day, h = divmod(tot, 24.0)
    d = dt.date.fromordinal(int(day))
    jj = d.toordinal() - dt.date(d.year, 1, 1).toordinal() + 1
    return d.year * 1000 + jj, float(h)


def gridded_from_spec(spec):
    """Deterministic content: every value unique and non-zero."""
    nx, ny, nz, nt = spec['nx'], spec['ny'], spec['nz'], spec['nt']
    sp = list(spec['species'])
    data = np.zeros((nt, len(sp), nz, ny, nx), dtype='>f4')
    n = data.size
    data[...] = (1.0 + 0.25 * np.arange(n, dtype='f8')).reshape(data.shape)
    times = []
    d, h = spec['sdate'], float(spec['stime'])
    dt = float(spec.get('dt', 1.0))
    for t in range(nt):
        d2, h2 = add_hours(d, h, dt)
        times.append((d, h, d2, h2))
        d, h = d2, h2
    return {'name': spec.get('name', 'AVERAGE'), 'note': spec.get('note', 'stub producer'),
            'itzon': spec.get('itzon', 0), 'species': sp,
            'plon': spec.get('plon', -97.0), 'plat': spec.get('plat', 40.0),
            'iutm': spec.get('iutm', 0),
            'xorg': spec.get('xorg', -108000.0), 'yorg': spec.get('yorg', -1584000.0),
            'delx': spec.get('delx', 12000.0), 'dely': spec.get('dely', 12000.0),
            'nx': nx, 'ny': ny, 'nz': nz, 'iproj': spec.get('iproj', 2),
            'istag': spec.get('istag', 0), 'tlat1': spec.get('tlat1', 33.0),
            'tlat2': spec.get('tlat2', 45.0), 'times': times, 'data': data}


def encode_gridded(g):
    """-> (bytes, step_ends) where step_ends[i] is the offset just past the
    last byte of time step i."""
    sp = g['species']
    nsp = len(sp)
    nx, ny, nz = g['nx'], g['ny'], g['nz']
    t0 = g['times'][0]
    t1 = g['times'][-1]
    out = []
    out.append(pack_record(
        str4(g['name'], 10) + str4(g['note'], 60) +
        struct.pack('>iiifif', g['itzon'], nsp, yyjjj(t0[0]), t0[1],
                    yyjjj(t1[2]), t1[3])))
    out.append(pack_record(struct.pack(
        '>ffiffffiiiiifff', g['plon'], g['plat'], g['iutm'], g['xorg'],
        g['yorg'], g['delx'], g['dely'], nx, ny,
        # surface files are also produced with 0 layers in the header
        g['hdr_nz'] if g.get('hdr_nz') is not None else nz, g['iproj'], g['istag'],
        g['tlat1'], g['tlat2'], 0.0)))
    out.append(pack_record(struct.pack('>iiii', 1, 1, nx, ny)))
    out.append(pack_record(b''.join(str4(s, 10) for s in sp)))
    off = sum(len(x) for x in out)
    header_end = off
    ends = []
    data = np.asarray(g['data'], dtype='>f4')
    for ti, (bd, bt, ed, et) in enumerate(g['times']):
        r = pack_record(struct.pack('>ifif', yyjjj(bd), bt, yyjjj(ed), et))
        out.append(r)
        off += len(r)
        for si, s in enumerate(sp):
            for k in range(nz):
                r = pack_record(struct.pack('>i', 1) + str4(s, 10) +
                                data[ti, si, k].tobytes())
                out.append(r)
                off += len(r)
        ends.append(off)
    return b''.join(out), {'header_end': header_end, 'step_ends': ends}


def gridded_to_little_endian(buf):
    """The same gridded file as a little-endian machine writes it: every 4-byte
    number (record markers included) byte-swapped, character words unchanged."""
    def swap(b):
        return np.frombuffer(b, dtype='>u4').astype('<u4').tobytes()
    out = []
    for i, (off, p) in enumerate(walk(buf)):
        if i == 0:
            body = p[:280] + swap(p[280:])
        elif i in (1, 2):
            body = swap(p)
        elif i == 3:
            body = p
        elif len(p) == 16:
            body = swap(p)                       # time record
        else:
            body = swap(p[:4]) + p[4:44] + swap(p[44:])
        m = struct.pack('<i', len(p))
        out.append(m + body + m)
    return b''.join(out)


def write_gridded(path, g):
    b, meta = encode_gridded(g)
    with open(path, 'wb') as f:
        f.write(b)
    return meta


def decode_gridded(buf):
    recs = walk(buf)
    if len(recs) < 4:
        raise RecordError('fewer than 4 header records')
    p = recs[0][1]
    if len(p) != 40 + 240 + 24:
        raise RecordError('file header record has %d bytes' % len(p))
    name = unstr4(p[:40]).strip()
    note = unstr4(p[40:280])
    itzon, nsp, ibd, bt, ied, et = struct.unpack('>iiifif', p[280:])
    p = recs[1][1]
    if len(p) != 60:
        raise RecordError('grid header record has %d bytes' % len(p))
    (plon, plat, iutm, xorg, yorg, delx, dely, nx, ny, nz, iproj, istag,
     tlat1, tlat2, rdum) = struct.unpack('>ffiffffiiiiifff', p)
    p = recs[2][1]
    i1, i2, nx2, ny2 = struct.unpack('>iiii', p)
    if (nx2, ny2) != (nx, ny):
        raise RecordError('cell header nx,ny %s != grid header %s' % ((nx2, ny2), (nx, ny)))
    p = recs[3][1]
    if len(p) != 40 * nsp:
        raise RecordError('species record has %d bytes for %d species' % (len(p), nsp))
    sp = [unstr4(p[40 * i:40 * i + 40]).strip() for i in range(nsp)]
    nzz = max(nz, 1)
    per = 1 + nsp * nzz
    body = recs[4:]
    if len(body) % per:
        raise RecordError('%d data records is not a multiple of %d' % (len(body), per))
    nt = len(body) // per
    data = np.zeros((nt, nsp, nzz, ny, nx), dtype='>f4')
    times = []
    for t in range(nt):
        p = body[t * per][1]
        if len(p) != 16:
            raise RecordError('time record has %d bytes' % len(p))
        times.append(struct.unpack('>ifif', p))
        for si in range(nsp):
            for k in range(nzz):
                p = body[t * per + 1 + si * nzz + k][1]
                if len(p) != 4 + 40 + 4 * nx * ny:
                    raise RecordError('data record has %d bytes' % len(p))
                if unstr4(p[4:44]).strip() != sp[si]:
                    raise RecordError('species tag %r where %r expected' % (
                        unstr4(p[4:44]).strip(), sp[si]))
                data[t, si, k] = np.frombuffer(p[44:], dtype='>f4').reshape(ny, nx)
    return {'name': name, 'note': note, 'itzon': itzon, 'species': sp,
            'hdr_times': (ibd, bt, ied, et),
            'plon': plon, 'plat': plat, 'iutm': iutm, 'xorg': xorg, 'yorg': yorg,
            'delx': delx, 'dely': dely, 'nx': nx, 'ny': ny, 'nz': nz,
            'iproj': iproj, 'istag': istag, 'tlat1': tlat1, 'tlat2': tlat2,
            'times': times, 'data': data}


# ---------------------------------------------------------------------------
# Lateral boundary (BOUNDARY)
#   rec1-4 as gridded (name BOUNDARY)
#   per edge W,E,S,N: ione iedge ncell ((iloc, idum, idum, idum), n=1..ncell)
#   per time: ibdate btime iedate etime
#     per species, per edge: ione mspec(10a4) iedge ((bc(k,i) k=1..nz) i=1..ncell)
# ---------------------------------------------------------------------------
EDGES = ['WEST', 'EAST', 'SOUTH', 'NORTH']


def boundary_from_spec(spec):
    nx, ny, nz, nt = spec['nx'], spec['ny'], spec['nz'], spec['nt']
    sp = list(spec['species'])
    g = gridded_from_spec(dict(spec, name='BOUNDARY'))
    del g['data']
    data = {}
    base = 1.0
    for e in EDGES:
        nc = ny if e in ('WEST', 'EAST') else nx
        a = np.zeros((nt, len(sp), nc, nz), dtype='>f4')
        a[...] = (base + 0.25 * np.arange(a.size, dtype='f8')).reshape(a.shape)
        base += a.size * 0.25 + 100.0
        data[e] = a
    g['edges'] = data
    g['iloc'] = {e: [2] * (ny if e in ('WEST', 'EAST') else nx) for e in EDGES}
    for e in EDGES:
        g['iloc'][e][0] = 0
        g['iloc'][e][-1] = 0
    return g


def encode_boundary(g):
    sp = g['species']
    nsp = len(sp)
    nx, ny, nz = g['nx'], g['ny'], g['nz']
    t0 = g['times'][0]
    t1 = g['times'][-1]
    out = []
    out.append(pack_record(
        str4('BOUNDARY', 10) + str4(g['note'], 60) +
        struct.pack('>iiifif', g['itzon'], nsp, yyjjj(t0[0]), t0[1],
                    yyjjj(t1[2]), t1[3])))
    out.append(pack_record(struct.pack(
        '>ffiffffiiiiifff', g['plon'], g['plat'], g['iutm'], g['xorg'],
        g['yorg'], g['delx'], g['dely'], nx, ny, nz, g['iproj'], g['istag'],
        g['tlat1'], g['tlat2'], 0.0)))
    out.append(pack_record(struct.pack('>iiii', 1, 1, nx, ny)))
    out.append(pack_record(b''.join(str4(s, 10) for s in sp)))
    for ei, e in enumerate(EDGES):
        nc = ny if e in ('WEST', 'EAST') else nx
        body = struct.pack('>iii', 1, ei + 1, nc)
        for n in range(nc):
            body += struct.pack('>iiii', g['iloc'][e][n], 0, 0, 0)
        out.append(pack_record(body))
    off = sum(len(x) for x in out)
    header_end = off
    ends = []
    for ti, (bd, bt, ed, et) in enumerate(g['times']):
        r = pack_record(struct.pack('>ifif', yyjjj(bd), bt, yyjjj(ed), et))
        out.append(r)
        off += len(r)
        for si, s in enumerate(sp):
            for ei, e in enumerate(EDGES):
                a = np.asarray(g['edges'][e][ti, si], dtype='>f4')
                r = pack_record(struct.pack('>i', 1) + str4(s, 10) +
                                struct.pack('>i', ei + 1) + a.tobytes())
                out.append(r)
                off += len(r)
        ends.append(off)
    return b''.join(out), {'header_end': header_end, 'step_ends': ends}


def decode_boundary(buf):
    recs = walk(buf)
    p = recs[0][1]
    name = unstr4(p[:40]).strip()
    note = unstr4(p[40:280])
    itzon, nsp, ibd, bt, ied, et = struct.unpack('>iiifif', p[280:])
    (plon, plat, iutm, xorg, yorg, delx, dely, nx, ny, nz, iproj, istag,
     tlat1, tlat2, rdum) = struct.unpack('>ffiffffiiiiifff', recs[1][1])
    p = recs[3][1]
    if len(p) != 40 * nsp:
        raise RecordError('species record size')
    sp = [unstr4(p[40 * i:40 * i + 40]).strip() for i in range(nsp)]
    iloc = {}
    for ei, e in enumerate(EDGES):
        p = recs[4 + ei][1]
        nc = ny if e in ('WEST', 'EAST') else nx
        if len(p) != 12 + 16 * nc:
            raise RecordError('edge definition record size %d for %s' % (len(p), e))
        one, iedge, ncell = struct.unpack('>iii', p[:12])
        if iedge != ei + 1 or ncell != nc:
            raise RecordError('edge definition %s says iedge=%d ncell=%d' % (e, iedge, ncell))
        iloc[e] = [struct.unpack_from('>i', p, 12 + 16 * n)[0] for n in range(nc)]
    body = recs[8:]
    per = 1 + nsp * 4
    if len(body) % per:
        raise RecordError('%d data records is not a multiple of %d' % (len(body), per))
    nt = len(body) // per
    nzz = max(nz, 1)
    edges = {e: np.zeros((nt, nsp, ny if e in ('WEST', 'EAST') else nx, nzz), dtype='>f4')
             for e in EDGES}
    times = []
    for t in range(nt):
        p = body[t * per][1]
        if len(p) != 16:
            raise RecordError('time record size')
        times.append(struct.unpack('>ifif', p))
        for si in range(nsp):
            for ei, e in enumerate(EDGES):
                p = body[t * per + 1 + si * 4 + ei][1]
                nc = ny if e in ('WEST', 'EAST') else nx
                if len(p) != 48 + 4 * nc * nzz:
                    raise RecordError('boundary data record size %d' % len(p))
                if unstr4(p[4:44]).strip() != sp[si]:
                    raise RecordError('species tag mismatch')
                if struct.unpack('>i', p[44:48])[0] != ei + 1:
                    raise RecordError('edge tag mismatch')
                edges[e][t, si] = np.frombuffer(p[48:], dtype='>f4').reshape(nc, nzz)
    return {'name': name, 'note': note, 'itzon': itzon, 'species': sp,
            'hdr_times': (ibd, bt, ied, et), 'plon': plon, 'plat': plat,
            'iutm': iutm, 'xorg': xorg, 'yorg': yorg, 'delx': delx,
            'dely': dely, 'nx': nx, 'ny': ny, 'nz': nz, 'iproj': iproj,
            'istag': istag, 'tlat1': tlat1, 'tlat2': tlat2, 'times': times,
            'edges': edges, 'iloc': iloc}


# ---------------------------------------------------------------------------
# Meteorological formats: every data record is  hour idate ((x(i,j)))
#   one3d (humidity, vertical diffusivity): per time, per layer: one record
#   temperature: per time: surface record, then one record per layer
#   height/pressure: per time, per layer: height record, pressure record
#   wind: per time: (hour idate lstagger); per layer: U record, V record
#         (no time tag in U/V records); then a one-word dummy record
# ---------------------------------------------------------------------------
def met_times(spec):
    """(YYYYJJJ, HHMM as float) per step: the meteorological files carry the
    time of day as HHMM"""
    out = []
    d, h = spec['sdate'], float(spec['stime'])
    for t in range(spec['nt']):
        out.append((d, float(int(h) * 100 + int(round((h - int(h)) * 60)))))
        d, h = add_hours(d, h, float(spec.get('dt', 1.0)))
    return out


def met_from_spec(spec):
    """fields[name] -> (nt, nz, ny, nx) or (nt, ny, nx) unique non-zero values"""
    nx, ny, nz, nt = spec['nx'], spec['ny'], spec['nz'], spec['nt']
    kind = spec['kind']
    names = {'one3d': ['X'], 'humidity': ['X'], 'vertical_diffusivity': ['X'],
             'temperature': ['SURF', 'AIR'], 'height_pressure': ['HGHT', 'PRES'],
             'wind': ['U', 'V']}[kind]
    fields = {}
    base = 1.0
    for n in names:
        shape = (nt, ny, nx) if n == 'SURF' else (nt, nz, ny, nx)
        a = np.zeros(shape, dtype='>f4')
        a[...] = (base + 0.25 * np.arange(a.size, dtype='f8')).reshape(shape)
        base += 0.25 * a.size + 500.0
        fields[n] = a
    return {'kind': kind, 'nx': nx, 'ny': ny, 'nz': nz, 'times': met_times(spec),
            'fields': fields, 'lstagger': spec.get('lstagger', 0),
            'nostagger': bool(spec.get('nostagger'))}


def _tagged(h, d, arr):
    return pack_record(struct.pack('>fi', h, yyjjj(d)) +
                       np.asarray(arr, dtype='>f4').tobytes())


def encode_met(m):
    kind = m['kind']
    out = []
    off = 0
    ends = []
    dends = []
    f = m['fields']
    for ti, (d, h) in enumerate(m['times']):
        recs = []
        if kind in ('one3d', 'humidity', 'vertical_diffusivity'):
            for k in range(m['nz']):
                recs.append(_tagged(h, d, f['X'][ti, k]))
        elif kind == 'temperature':
            recs.append(_tagged(h, d, f['SURF'][ti]))
            for k in range(m['nz']):
                recs.append(_tagged(h, d, f['AIR'][ti, k]))
        elif kind == 'height_pressure':
            for k in range(m['nz']):
                recs.append(_tagged(h, d, f['HGHT'][ti, k]))
                recs.append(_tagged(h, d, f['PRES'][ti, k]))
        elif kind == 'wind':
            if m.get('nostagger'):
                # older wind files: the time record carries hour and date only
                recs.append(pack_record(struct.pack('>fi', h, yyjjj(d))))
            else:
                recs.append(pack_record(struct.pack('>fii', h, yyjjj(d), m['lstagger'])))
            for k in range(m['nz']):
                recs.append(pack_record(np.asarray(f['U'][ti, k], dtype='>f4').tobytes()))
                recs.append(pack_record(np.asarray(f['V'][ti, k], dtype='>f4').tobytes()))
            recs.append(pack_record(struct.pack('>i', 0)))
        else:
            raise ValueError(kind)
        for ri, r in enumerate(recs):
            out.append(r)
            off += len(r)
            if kind == 'wind' and ri == len(recs) - 2:
                dends.append(off)     # the trailing dummy record carries no data
        ends.append(off)
        if kind != 'wind':
            dends.append(off)
    return b''.join(out), {'header_end': 0, 'step_ends': ends, 'data_ends': dends}


def decode_met(buf, kind, nx, ny):
    recs = walk(buf)
    ncell = nx * ny
    times = []
    fields = {}

    def tagged(p):
        if len(p) != 8 + 4 * ncell:
            raise RecordError('record of %d bytes where %d expected' % (len(p), 8 + 4 * ncell))
        h, d = struct.unpack('>fi', p[:8])
        return (d, h), np.frombuffer(p[8:], dtype='>f4').reshape(ny, nx)
    if kind == 'wind':
        # find layer count from the first block
        i = 1
        while i < len(recs) and len(recs[i][1]) == 4 * ncell:
            i += 1
        nz = (i - 1) // 2
        per = 2 + 2 * nz
        if nz == 0 or len(recs) % per:
            raise RecordError('wind record structure')
        nt = len(recs) // per
        U = np.zeros((nt, nz, ny, nx), dtype='>f4')
        V = np.zeros((nt, nz, ny, nx), dtype='>f4')
        lst = None
        for t in range(nt):
            p = recs[t * per][1]
            if len(p) == 12:
                h, d, lst = struct.unpack('>fii', p)
            elif len(p) == 8:
                h, d = struct.unpack('>fi', p)
            else:
                raise RecordError('wind time record size %d' % len(p))
            times.append((d, h))
            for k in range(nz):
                for j, A in enumerate((U, V)):
                    p = recs[t * per + 1 + 2 * k + j][1]
                    if len(p) != 4 * ncell:
                        raise RecordError('wind data record size')
                    A[t, k] = np.frombuffer(p, dtype='>f4').reshape(ny, nx)
        return {'kind': kind, 'nx': nx, 'ny': ny, 'nz': nz, 'times': times,
                'fields': {'U': U, 'V': V}, 'lstagger': lst}
    tags = [tagged(p)[0] for o, p in recs]
    if not tags:
        raise RecordError('empty file')
    # records of one time step share their tag
    n0 = 1
    while n0 < len(tags) and tags[n0] == tags[0]:
        n0 += 1
    per = n0
    if len(recs) % per:
        raise RecordError('%d records is not a multiple of %d' % (len(recs), per))
    nt = len(recs) // per
    if kind in ('one3d', 'humidity', 'vertical_diffusivity'):
        nz = per
        X = np.zeros((nt, nz, ny, nx), dtype='>f4')
        for t in range(nt):
            for k in range(nz):
                tg, a = tagged(recs[t * per + k][1])
                if tg != tags[t * per]:
                    raise RecordError('time tag changes inside a step')
                X[t, k] = a
            times.append(tags[t * per])
        fields = {'X': X}
    elif kind == 'temperature':
        nz = per - 1
        S = np.zeros((nt, ny, nx), dtype='>f4')
        A = np.zeros((nt, nz, ny, nx), dtype='>f4')
        for t in range(nt):
            S[t] = tagged(recs[t * per][1])[1]
            for k in range(nz):
                tg, a = tagged(recs[t * per + 1 + k][1])
                if tg != tags[t * per]:
                    raise RecordError('time tag changes inside a step')
                A[t, k] = a
            times.append(tags[t * per])
        fields = {'SURF': S, 'AIR': A}
    elif kind == 'height_pressure':
        if per % 2:
            raise RecordError('odd record count per step')
        nz = per // 2
        H = np.zeros((nt, nz, ny, nx), dtype='>f4')
        P = np.zeros((nt, nz, ny, nx), dtype='>f4')
        for t in range(nt):
            for k in range(nz):
                H[t, k] = tagged(recs[t * per + 2 * k][1])[1]
                P[t, k] = tagged(recs[t * per + 2 * k + 1][1])[1]
            times.append(tags[t * per])
        fields = {'HGHT': H, 'PRES': P}
    else:
        raise ValueError(kind)
    return {'kind': kind, 'nx': nx, 'ny': ny, 'nz': nz, 'times': times,
            'fields': fields, 'lstagger': 0}


def yyyyjjj(yyjjj_, pivot=70):
    """two-digit-year julian date -> four digits (1970-2069 window)"""
    yy, jjj = divmod(int(yyjjj_), 1000)
    if yy >= 1000:
        return int(yyjjj_)
    return ((1900 if yy >= pivot else 2000) + yy) * 1000 + jjj


def hhmmss(hour):
    """CAMx float hour (HH or HHMM/100?) -> HHMMSS.  CAMx meteorology uses
    hour as HHMM (e.g. 1200.) in v4+ and HH in older files; files here use
    whole hours 0..23 stored as HH."""
    h = int(round(float(hour)))
    return h * 10000


def selftest():
    """decode -> re-encode every sample file of the repo byte for byte."""
    base = '/repo/src/PseudoNetCDF/testcase/camxfiles/'
    res = {}
    b = open(base + 'uamiv/test.uamiv', 'rb').read()
    g = decode_gridded(b)
    g['times'] = [(yyyyjjj(t[0]), t[1], yyyyjjj(t[2]), t[3]) for t in g['times']]
    res['uamiv'] = encode_gridded(g)[0] == b
    b = open(base + 'lateral_boundary/test.lateral_boundary', 'rb').read()
    g = decode_boundary(b)
    g['times'] = [(yyyyjjj(t[0]), t[1], yyyyjjj(t[2]), t[3]) for t in g['times']]
    res['lateral_boundary'] = encode_boundary(g)[0] == b
    for kind, fn in [('humidity', 'humidity/test.humidity'),
                     ('vertical_diffusivity', 'vertical_diffusivity/test.vertical_diffusivity'),
                     ('temperature', 'temperature/test.temperature'),
                     ('height_pressure', 'height_pressure/test.height_pressure'),
                     ('wind', 'wind/test.wind')]:
        b = open(base + fn, 'rb').read()
        m = decode_met(b, kind, 5, 4)
        m['times'] = [(yyyyjjj(d), h) for d, h in m['times']]
        res[kind] = encode_met(m)[0] == b
    b = open(base + 'cloud_rain/test.cloud_rain', 'rb').read()
    m = decode_cloud_rain(b)
    m['times'] = [(yyyyjjj(d), h) for d, h in m['times']]
    res['cloud_rain'] = encode_cloud_rain(m)[0] == b
    b = open(base + 'landuse/test.landuse', 'rb').read()
    res['landuse'] = encode_landuse(decode_landuse(b, 5, 4))[0] == b
    return res




# ---------------------------------------------------------------------------
# Cloud/rain (CAMx >= 4.3):
#   rec  cldhdr a20, nx, ny, nz
#   per time:  rec hour idate ;  per layer: rec cwater, rec rwater, rec snow,
#              rec graupel, rec cod     (each ((x(i,j), i=1..nx), j=1..ny))
# Land use (new style):
#   rec 'LUCAT11 ' | 'LUCAT26 ' ; rec (((fland(i,j,l), i), j), l)
#   optionally  rec 'LAI     ' ; rec lai(i,j)   and   rec 'TOPO    ' ; rec topo(i,j)
# ---------------------------------------------------------------------------
CR_VARS = ['CLOUD', 'RAIN', 'SNOW', 'GRAUPEL', 'COD']


def cloud_rain_from_spec(spec):
    nx, ny, nz, nt = spec['nx'], spec['ny'], spec['nz'], spec['nt']
    fields = {}
    base = 1.0
    for n in CR_VARS:
        a = np.zeros((nt, nz, ny, nx), dtype='>f4')
        a[...] = (base + 0.25 * np.arange(a.size, dtype='f8')).reshape(a.shape)
        base += 0.25 * a.size + 300.0
        fields[n] = a
    return {'kind': 'cloud_rain', 'nx': nx, 'ny': ny, 'nz': nz, 'times': met_times(spec),
            'fields': fields, 'cldhdr': spec.get('cldhdr', 'CAMx_V4.3 CLOUD_RAIN ')}


def encode_cloud_rain(m):
    out = [pack_record(m['cldhdr'].ljust(20)[:20].encode('ascii') +
                       struct.pack('>iii', m['nx'], m['ny'], m['nz']))]
    off = len(out[0])
    header_end = off
    ends = []
    for ti, (d, h) in enumerate(m['times']):
        r = pack_record(struct.pack('>fi', h, yyjjj(d)))
        out.append(r)
        off += len(r)
        for k in range(m['nz']):
            for n in CR_VARS:
                r = pack_record(np.asarray(m['fields'][n][ti, k], dtype='>f4').tobytes())
                out.append(r)
                off += len(r)
        ends.append(off)
    return b''.join(out), {'header_end': header_end, 'step_ends': ends}


def decode_cloud_rain(buf):
    recs = walk(buf)
    p = recs[0][1]
    if len(p) != 32:
        # character*20 header text + three integers
        raise RecordError('cloud/rain header record of %d bytes (the layout has 32)' % len(p))
    nx, ny, nz = struct.unpack('>iii', p[-12:])
    cldhdr = p[:-12].decode('ascii')
    per = 1 + nz * 5
    body = recs[1:]
    if nz <= 0 or len(body) % per:
        raise RecordError('%d records after the header is not a multiple of %d' % (len(body), per))
    nt = len(body) // per
    fields = {n: np.zeros((nt, nz, ny, nx), dtype='>f4') for n in CR_VARS}
    times = []
    for t in range(nt):
        p = body[t * per][1]
        if len(p) != 8:
            raise RecordError('time record of %d bytes' % len(p))
        h, d = struct.unpack('>fi', p)
        times.append((d, h))
        for k in range(nz):
            for vi, n in enumerate(CR_VARS):
                p = body[t * per + 1 + k * 5 + vi][1]
                if len(p) != 4 * nx * ny:
                    raise RecordError('data record of %d bytes' % len(p))
                fields[n][t, k] = np.frombuffer(p, dtype='>f4').reshape(ny, nx)
    return {'kind': 'cloud_rain', 'nx': nx, 'ny': ny, 'nz': nz, 'times': times,
            'fields': fields, 'cldhdr': cldhdr}


def landuse_from_spec(spec):
    nx, ny = spec['nx'], spec['ny']
    nland = spec.get('nland', 11)
    f = np.zeros((nland, ny, nx), dtype='>f4')
    f[...] = (1.0 + 0.25 * np.arange(f.size, dtype='f8')).reshape(f.shape) / (f.size + 8.0)
    out = {'nx': nx, 'ny': ny, 'nland': nland, 'FLAND': f, 'extra': []}
    base = 100.0
    for key in spec.get('extra', []):
        a = (base + 0.5 * np.arange(nx * ny, dtype='f8')).reshape(ny, nx).astype('>f4')
        base += 1000.
        out['extra'].append((key, a))
    return out


def encode_landuse(m):
    out = [pack_record(('LUCAT%02d' % m['nland']).ljust(8).encode('ascii')),
           pack_record(np.asarray(m['FLAND'], dtype='>f4').tobytes())]
    for key, a in m['extra']:
        out.append(pack_record(key.ljust(8).encode('ascii')))
        out.append(pack_record(np.asarray(a, dtype='>f4').tobytes()))
    b = b''.join(out)
    return b, {'header_end': len(out[0]), 'step_ends': [len(b)]}


def decode_landuse(buf, nx, ny):
    recs = walk(buf)
    if len(recs) < 2 or len(recs) % 2 or len(recs[0][1]) != 8:
        raise RecordError('land-use record structure')
    key = recs[0][1].decode('ascii').strip()
    if not key.startswith('LUCAT'):
        raise RecordError('first key %r' % key)
    nland = int(key[5:])
    p = recs[1][1]
    if len(p) != 4 * nland * nx * ny:
        raise RecordError('FLAND record of %d bytes for %d classes' % (len(p), nland))
    out = {'nx': nx, 'ny': ny, 'nland': nland,
           'FLAND': np.frombuffer(p, dtype='>f4').reshape(nland, ny, nx), 'extra': []}
    for i in range(2, len(recs), 2):
        k = recs[i][1].decode('ascii').strip()
        p = recs[i + 1][1]
        if len(p) != 4 * nx * ny:
            raise RecordError('%s record of %d bytes' % (k, len(p)))
        out['extra'].append((k, np.frombuffer(p, dtype='>f4').reshape(ny, nx)))
    return out


if __name__ == '__main__':
    print(selftest())
