"""Reference encoders/decoders for CAMx binary formats, written from the CAMx
User's Guide record lists (big-endian Fortran unformatted).  Shares no code
with PseudoNetCDF.

Gridded (AVERAGE / EMISSIONS / INSTANT / AIRQUALITY):
  rec1  name(10a4) note(60a4) itzon nspec ibdate btime iedate etime
  rec2  plon plat iutm xorg yorg delx dely nx ny nz iproj istag tlat1 tlat2 rdum
  rec3  ione ione nx ny
  rec4  (mspec(10a4), l=1..nspec)
  per time:
    rec   ibdate btime iedate etime
    per species l, per layer k:
      rec ione mspec(10a4) ((conc(i,j,k,l), i=1..nx), j=1..ny)
"""
import struct

import numpy as np

from .fortran import pack_record, walk, str4, unstr4, RecordError


def yyjjj(yyyyjjj):
    return int(yyyyjjj) % 100000


def add_hours(yyyyjjj, hour, dh):
    """(YYYYJJJ, float hour) + dh hours with calendar roll-over."""
    import datetime as dt
    y, j = divmod(int(yyyyjjj), 1000)
    base = dt.date(y, 1, 1).toordinal() + j - 1
    tot = base * 24.0 + hour + dh
    day, h = divmod(tot, 24.0)
    d = dt.date.fromordinal(int(day))
    jj = d.toordinal() - dt.date(d.year, 1, 1).toordinal() + 1
    return d.year * 1000 + jj, float(h)


def gridded_from_spec(spec):
    """Deterministic content: every value unique and non-zero."""
    nx, ny, nz, nt = spec['nx'], spec['ny'], spec['nz'], spec['nt']
    sp = list(spec['species'])
    data = np.zeros((nt, len(sp), nz, ny, nx), dtype='>f4')
    n = data.size
    data[...] = (1.0 + 0.25 * np.arange(n, dtype='f8')).reshape(data.shape)
    times = []
    d, h = spec['sdate'], float(spec['stime'])
    for t in range(nt):
        d2, h2 = add_hours(d, h, 1.0)
        times.append((d, h, d2, h2))
        d, h = d2, h2
    return {'name': spec.get('name', 'AVERAGE'), 'note': spec.get('note', 'stub producer'),
            'itzon': spec.get('itzon', 0), 'species': sp,
            'plon': spec.get('plon', -97.0), 'plat': spec.get('plat', 40.0),
            'iutm': spec.get('iutm', 0),
            'xorg': spec.get('xorg', -108000.0), 'yorg': spec.get('yorg', -1584000.0),
            'delx': spec.get('delx', 12000.0), 'dely': spec.get('dely', 12000.0),
            'nx': nx, 'ny': ny, 'nz': nz, 'iproj': spec.get('iproj', 2),
            'istag': spec.get('istag', 0), 'tlat1': spec.get('tlat1', 33.0),
            'tlat2': spec.get('tlat2', 45.0), 'times': times, 'data': data}


def encode_gridded(g):
    """-> (bytes, step_ends) where step_ends[i] is the offset just past the
    last byte of time step i."""
    sp = g['species']
    nsp = len(sp)
    nx, ny, nz = g['nx'], g['ny'], g['nz']
    t0 = g['times'][0]
    t1 = g['times'][-1]
    out = []
    out.append(pack_record(
        str4(g['name'], 10) + str4(g['note'], 60) +
        struct.pack('>iiifif', g['itzon'], nsp, yyjjj(t0[0]), t0[1],
                    yyjjj(t1[2]), t1[3])))
    out.append(pack_record(struct.pack(
        '>ffiffffiiiiifff', g['plon'], g['plat'], g['iutm'], g['xorg'],
        g['yorg'], g['delx'], g['dely'], nx, ny, nz, g['iproj'], g['istag'],
        g['tlat1'], g['tlat2'], 0.0)))
    out.append(pack_record(struct.pack('>iiii', 1, 1, nx, ny)))
    out.append(pack_record(b''.join(str4(s, 10) for s in sp)))
    off = sum(len(x) for x in out)
    header_end = off
    ends = []
    data = np.asarray(g['data'], dtype='>f4')
    for ti, (bd, bt, ed, et) in enumerate(g['times']):
        r = pack_record(struct.pack('>ifif', yyjjj(bd), bt, yyjjj(ed), et))
        out.append(r)
        off += len(r)
        for si, s in enumerate(sp):
            for k in range(nz):
                r = pack_record(struct.pack('>i', 1) + str4(s, 10) +
                                data[ti, si, k].tobytes())
                out.append(r)
                off += len(r)
        ends.append(off)
    return b''.join(out), {'header_end': header_end, 'step_ends': ends}


def write_gridded(path, g):
    b, meta = encode_gridded(g)
    with open(path, 'wb') as f:
        f.write(b)
    return meta


def decode_gridded(buf):
    recs = walk(buf)
    if len(recs) < 4:
        raise RecordError('fewer than 4 header records')
    p = recs[0][1]
    if len(p) != 40 + 240 + 24:
        raise RecordError('file header record has %d bytes' % len(p))
    name = unstr4(p[:40]).strip()
    note = unstr4(p[40:280])
    itzon, nsp, ibd, bt, ied, et = struct.unpack('>iiifif', p[280:])
    p = recs[1][1]
    if len(p) != 60:
        raise RecordError('grid header record has %d bytes' % len(p))
    (plon, plat, iutm, xorg, yorg, delx, dely, nx, ny, nz, iproj, istag,
     tlat1, tlat2, rdum) = struct.unpack('>ffiffffiiiiifff', p)
    p = recs[2][1]
    i1, i2, nx2, ny2 = struct.unpack('>iiii', p)
    if (nx2, ny2) != (nx, ny):
        raise RecordError('cell header nx,ny %s != grid header %s' % ((nx2, ny2), (nx, ny)))
    p = recs[3][1]
    if len(p) != 40 * nsp:
        raise RecordError('species record has %d bytes for %d species' % (len(p), nsp))
    sp = [unstr4(p[40 * i:40 * i + 40]).strip() for i in range(nsp)]
    nzz = max(nz, 1)
    per = 1 + nsp * nzz
    body = recs[4:]
    if len(body) % per:
        raise RecordError('%d data records is not a multiple of %d' % (len(body), per))
    nt = len(body) // per
    data = np.zeros((nt, nsp, nzz, ny, nx), dtype='>f4')
    times = []
    for t in range(nt):
        p = body[t * per][1]
        if len(p) != 16:
            raise RecordError('time record has %d bytes' % len(p))
        times.append(struct.unpack('>ifif', p))
        for si in range(nsp):
            for k in range(nzz):
                p = body[t * per + 1 + si * nzz + k][1]
                if len(p) != 4 + 40 + 4 * nx * ny:
                    raise RecordError('data record has %d bytes' % len(p))
                if unstr4(p[4:44]).strip() != sp[si]:
                    raise RecordError('species tag %r where %r expected' % (
                        unstr4(p[4:44]).strip(), sp[si]))
                data[t, si, k] = np.frombuffer(p[44:], dtype='>f4').reshape(ny, nx)
    return {'name': name, 'note': note, 'itzon': itzon, 'species': sp,
            'hdr_times': (ibd, bt, ied, et),
            'plon': plon, 'plat': plat, 'iutm': iutm, 'xorg': xorg, 'yorg': yorg,
            'delx': delx, 'dely': dely, 'nx': nx, 'ny': ny, 'nz': nz,
            'iproj': iproj, 'istag': istag, 'tlat1': tlat1, 'tlat2': tlat2,
            'times': times, 'data': data}
