"""Fortran unformatted sequential records, big-endian, 4-byte markers.

Independent of the library under test: only struct and bytes.
"""
import struct


class RecordError(Exception):
    pass


def pack_record(payload):
    n = len(payload)
    m = struct.pack('>i', n)
    return m + payload + m


def walk(buf):
    """Yield (offset, payload) for every record; raise RecordError unless the
    records tile the buffer exactly with agreeing leading/trailing markers."""
    off = 0
    n = len(buf)
    out = []
    while off < n:
        if off + 4 > n:
            raise RecordError('truncated leading marker at %d' % off)
        ln, = struct.unpack_from('>i', buf, off)
        if ln < 0 or off + 8 + ln > n:
            raise RecordError('record at %d claims %d bytes beyond file end'
                              % (off, ln))
        tr, = struct.unpack_from('>i', buf, off + 4 + ln)
        if tr != ln:
            raise RecordError('marker mismatch at %d: %d != %d' % (off, ln, tr))
        out.append((off, buf[off + 4: off + 4 + ln]))
        off += 8 + ln
    return out


def str4(s, n):
    """Fortran 'character*4 array(n)' holding one character per word."""
    s = s.ljust(n)[:n]
    return b''.join(c.encode('ascii') + b'   ' for c in s)


def unstr4(b):
    return b[0::4].decode('ascii')
