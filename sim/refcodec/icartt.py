"""Reference ICARTT / NASA-Ames FFI 1001 encoder and decoder, written from the
ICARTT data format document (v1.1).  Independent of the library.

Header layout (line numbers 1-based):
  1  NLHEAD, 1001
  2  PI  3 organisation  4 source  5 mission  6 ivol, nvol
  7  YYYY, MM, DD, YYYY, MM, DD
  8  data interval   9 independent variable name, units
  10 number of dependent variables n
  11 n scale factors   12 n missing-data indicators
  13..12+n  name, units
  13+n  number of special comment lines (+ those lines)
  then  number of normal comment lines (+ those lines; the last one is the
        column header)
"""


def encode(doc):
    """doc: {'pi','org','source','mission','date':(y,m,d),'rev':(y,m,d),
             'interval', 'ivar':(name, unit), 'vars':[(name, unit, scale, missing)],
             'special':[lines], 'normal':[lines], 'rows':[[values...]]}"""
    n = len(doc['vars'])
    normal = list(doc.get('normal', []))
    header = ', '.join([doc['ivar'][0]] + [v[0] for v in doc['vars']])
    normal = normal + [header]
    special = list(doc.get('special', []))
    nl = 12 + n + 1 + len(special) + 1 + len(normal)
    L = []
    L.append('%d, 1001' % nl)
    L.append(doc.get('pi', 'Stub, P.I.'))
    L.append(doc.get('org', 'Stub organisation'))
    L.append(doc.get('source', 'stub instrument'))
    L.append(doc.get('mission', 'STUB 2004'))
    L.append('1, 1')
    L.append('%04d, %02d, %02d, %04d, %02d, %02d' % (tuple(doc['date']) + tuple(doc['rev'])))
    L.append(str(doc.get('interval', 0)))
    L.append('%s, %s' % doc['ivar'])
    L.append('%d' % n)
    L.append(', '.join(repr(v[2]) if not isinstance(v[2], int) else str(v[2]) for v in doc['vars']))
    L.append(', '.join(str(v[3]) for v in doc['vars']))
    for v in doc['vars']:
        L.append('%s, %s' % (v[0], v[1]))
    L.append('%d' % len(special))
    L.extend(special)
    L.append('%d' % len(normal))
    L.extend(normal)
    assert len(L) == nl
    for row in doc['rows']:
        L.append(', '.join(_fmt(x) for x in row))
    return ('\n'.join(L) + '\n').encode('utf-8')


def _fmt(x):
    if isinstance(x, int):
        return str(x)
    return '%.6e' % x


def decode(buf):
    text = buf.decode('utf-8')
    lines = text.split('\n')
    if lines and lines[-1] == '':
        lines.pop()
    first = [s.strip() for s in lines[0].split(',')]
    if len(first) != 2 or first[1] != '1001':
        raise ValueError('not FFI 1001: %r' % lines[0])
    nl = int(first[0])
    ivar = [s.strip() for s in lines[8].split(',', 1)]
    n = int(lines[9])
    scales = [float(s) for s in lines[10].split(',')]
    missing = [s.strip() for s in lines[11].split(',')]
    if len(scales) != n or len(missing) != n:
        raise ValueError('declared %d variables, %d scales, %d missing codes'
                         % (n, len(scales), len(missing)))
    vars_ = []
    for i in range(n):
        parts = [s.strip() for s in lines[12 + i].split(',', 1)]
        vars_.append((parts[0], parts[1] if len(parts) > 1 else ''))
    ns = int(lines[12 + n])
    special = lines[13 + n: 13 + n + ns]
    nn = int(lines[13 + n + ns])
    normal = lines[14 + n + ns: 14 + n + ns + nn]
    actual = 14 + n + ns + nn
    outside = False
    if actual + 1 == nl:
        # convention of the library writer: the column-header line is counted
        # in NLHEAD but not in the normal-comment count
        outside = True
        cols = [s.strip() for s in lines[nl - 1].split(',')]
    elif actual != nl:
        raise ValueError('declared %d header lines, structure has %d' % (nl, actual))
    else:
        cols = [s.strip() for s in normal[-1].split(',')] if normal else []
    rows = []
    for ln in lines[nl:]:
        if not ln.strip():
            raise ValueError('blank line inside data')
        vals = [s.strip() for s in ln.split(',')]
        if len(vals) != n + 1:
            raise ValueError('data line has %d fields, expected %d' % (len(vals), n + 1))
        rows.append(vals)
    return {'nlhead': nl, 'ivar': ivar, 'n': n, 'scales': scales,
            'missing': missing, 'vars': vars_, 'special': special,
            'normal': normal, 'columns': cols, 'rows': rows,
            'column_header_outside_normal_comments': outside,
            'date_line': lines[6]}


def doc_from_spec(spec):
    n = spec['nvars']
    nrec = spec['nrec']
    miss = spec.get('missing', [-9999] * n)
    vars_ = [('V%d_%s' % (i, 'ppbv'), 'ppbv', 1, miss[i]) for i in range(n)]
    if spec.get('dashname'):
        # instrument names carry characters that are not identifier characters
        vars_[0] = ('NO2-LIF/%s' % vars_[0][0],) + vars_[0][1:]
    if spec.get('dupname') and n >= 2:
        # merge files do repeat a column name now and then
        vars_[-1] = (vars_[0][0],) + vars_[-1][1:]
    rows = []
    for r in range(nrec):
        row = [spec.get('t0', 43200) + 60 * r]
        for i in range(n):
            if (r, i) in [tuple(x) for x in spec.get('holes', [])]:
                row.append(miss[i])
            else:
                row.append(1.5 + 100.0 * i + 0.25 * r)
        rows.append(row)
    return {'date': tuple(spec.get('date', (2004, 7, 15))),
            'rev': tuple(spec.get('rev', (2005, 1, 2))),
            'ivar': ('Start_UTC', 'seconds'), 'vars': vars_,
            'special': spec.get('special', []),
            'normal': spec.get('normal', ['PI_CONTACT_INFO: nobody@example.org',
                                          'PLATFORM: stub', 'REVISION: R0']),
            'rows': rows}
