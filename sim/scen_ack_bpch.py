"""C18 — GEOS-Chem binary punch read/write round trip and scaling.

Besides the crash-at-acknowledgement image and the handle schedule (as in
C07/C08), what a bpch file decodes to depends on AMBIENT DISK STATE: the
tracerinfo.dat / diaginfo.dat side-cars next to the file, else in the current
working directory, and the writer creates those side-cars only if they do not
exist yet.  The simulator therefore also owns the directory layout (own
tables / shared directory / foreign tables left by an earlier write) and the
process cwd (with or without foreign tables).  The stub peer is the reference
"CTM bin 02" codec of sim.refcodec.bpch.
"""
import os
import shutil

import numpy as np

from .core import seams
from .core.world import Violation, HarnessError
from .refcodec import bpch

NAME = 'ack_bpch'
PROPERTIES = ['C18']

CATS = [('IJ-AVG-$', 0), ('PEDGE-$', 10000), ('DAO-FLDS', 11000), ('BXHGHT-$', 24000),
        # several categories share offset 0 (and with it the tracer rows)
        ('IJ-24H-$', 0), ('INST-MAP', 0)]
TRACERS = ['O3', 'NOx', 'CO', 'ISOP', 'PSURF', 'TS', 'ALK4', 'HNO3']
SCHEDULES = ['retain', 'close', 'drop', 'drop+collect']


def gen_config(rng, tier):
    return {'files': rng.randrange(1, 3) if tier == 'quick' else rng.randrange(1, 4),
            'clock': 'steady', 'max_steps': 200}


def gen_tables(rng):
    cats = rng.sample(CATS, rng.randrange(1, 3))
    if rng.random() < 0.2:
        cats = [('IJ-AVG-$', 0), rng.choice([('IJ-24H-$', 0), ('INST-MAP', 0)])]
    if rng.random() < 0.3:
        # older tables: category offsets in steps of 100, tracer numbers up to 150
        cats = [(c, 100 * i) for i, (c, o) in enumerate(cats)]
        ids = [1, 2, 57, 120, 150]
    else:
        ids = [1, 2, 3, 4, 5]
    tracers = []
    used = set()
    for cname, off in cats:
        for tid in rng.sample(ids, rng.randrange(1, 4)):
            if (off + tid) in used:
                continue
            used.add(off + tid)
            name = rng.choice(TRACERS) + ('%d' % tid if rng.random() < 0.5 else '')
            while name in [t['name'] for t in tracers]:
                name = name + 'x'
            tracers.append({'name': name[:8], 'id': off + tid,
                            'scale': rng.choice([1.0, 1e9, 1e6, 1e12, 0.5]),
                            'unit': rng.choice(['ppbv', 'ppbC', 'hPa', 'K', 'm', 'atoms C/cm2/s',
                                                'kg C', 'molec/cm2/s', 'm2 / m2']),
                            'molwt': rng.choice([4.8e-2, 2.8e-2, 1.2e-2]),
                            'c': rng.choice([1, 1, 4]), 'cat': cname, 'tid': tid})
    return {'cats': [{'offset': o, 'category': c, 'comment': 'stub ' + c} for c, o in cats],
            'tracers': tracers}


def gen_spec(rng):
    tables = gen_tables(rng)
    nt = rng.choice([1, 2, 3, 3, 4, 5])
    ni, nj = rng.randrange(1, 5), rng.randrange(1, 5)
    i0, j0 = rng.randrange(1, 20), rng.randrange(2, 20)
    picks = rng.sample(tables['tracers'], rng.randrange(1, min(3, len(tables['tracers'])) + 1))
    blocks = [{'cat': t['cat'], 'tid': t['tid'], 'nl': rng.randrange(1, 4),
               'unit': rng.choice(['v/v', 'hPa', 'K', 'unitless'])} for t in picks]
    offs0 = {c['category']: c['offset'] for c in tables['cats']}
    for b in list(blocks):
        twins = [c for c in offs0 if c != b['cat'] and offs0[c] == offs0[b['cat']]]
        if twins and rng.random() < 0.6 and not any(
                x['cat'] == twins[0] and x['tid'] == b['tid'] for x in blocks):
            # the same tracer saved under a second category with the same offset:
            # both resolve to one row of the tracer table
            blocks.append({'cat': twins[0], 'tid': b['tid'], 'nl': rng.randrange(1, 4),
                           'unit': rng.choice(['v/v', 'ppbv', 'unitless'])})
    if rng.random() < 0.25:
        # a diagnostic whose tracer has no line in tracerinfo.dat for
        # (category offset + number): the reader falls back to the bare number
        # (name of that tracer if it has a line, else the number; never scaled)
        offs = {c['category']: c['offset'] for c in tables['cats']}
        have = {t['id'] for t in tables['tracers']}
        for cname, off in offs.items():
            if off == 0:
                continue
            for tid in (1, 2, 99):
                if off + tid not in have:
                    blocks.append({'cat': cname, 'tid': tid, 'nl': rng.randrange(1, 3),
                                   'unit': rng.choice(['unitless', 'kg']), 'unlisted': True})
                    break
            break
    if rng.random() < 0.4:
        # diagnostics saved on different windows / from different levels up
        for b in blocks[1:]:
            b['start'] = [i0 + rng.randrange(0, 3), j0 + rng.randrange(0, 3),
                          rng.choice([1, 1, 2, 3])]
    if len(blocks) >= 2 and rng.random() < 0.2:
        # every data block carries its own dimensions: a later diagnostic is a
        # zonal mean (NI = 1) or sits on a smaller window than the first block
        b = rng.choice(blocks[1:])
        if rng.random() < 0.6:
            b['ni'] = 1
        else:
            b['ni'] = max(1, ni - 1)
            b['nj'] = max(1, nj - rng.choice([0, 1]))
    permute = None
    if nt >= 2 and len(blocks) >= 2 and rng.random() < 0.2:
        # an irregular (still valid) file: one later time holds its data blocks
        # in another order
        perm = list(range(len(blocks)))
        while perm == list(range(len(blocks))):
            rng.shuffle(perm)
        permute = {'t': rng.randrange(1, nt), 'perm': perm}
        if rng.random() < 0.6:
            # same-shape blocks: nothing but the block headers tells them apart
            for b in blocks:
                b['nl'] = blocks[0]['nl']
                b.pop('start', None)
                b.pop('ni', None)
                b.pop('nj', None)
    return {'tables': tables, 'nt': nt, 'ni': ni, 'nj': nj, 'start': [i0, j0, 1],
            'blocks': blocks, 'permute': permute,
            # time bounds are 8-byte reals: hours that single precision cannot hold
            'tau0': rng.choice([0.0, 100.0, 140256.0, 175320.0, 175351.0 + 1.0 / 3, 140256.1]),
            'dtau': rng.choice([1.0, 24.0, 744.0, 1.0 / 3, 0.1]),
            # time blocks need not be in chronological order (a re-run month appended later)
            'tau_order': (rng.sample(range(nt), nt) if nt >= 2 and rng.random() < 0.2 else None),
            'modelname': rng.choice(['GEOS5_47L', 'GEOS4_30L', 'MERRA_47L']),
            'modelres': rng.choice([[5.0, 4.0], [2.5, 2.0]]),
            'halfpolar': 1, 'center180': 1, 'title': rng.choice(['stub run', 'GEOS-CHEM diag'])}


def doc_of(spec):
    times = []
    base = 1.0
    for t in range(spec['nt']):
        blocks = []
        for b in spec['blocks']:
            bnj, bni = b.get('nj', spec['nj']), b.get('ni', spec['ni'])
            n = b['nl'] * bnj * bni
            a = ((base + 0.25 * np.arange(n, dtype='f8')) * 1e-3).astype('f4').reshape(
                b['nl'], bnj, bni)
            base += 0.25 * n + 10.
            blocks.append({'category': b['cat'], 'tracer': b['tid'], 'unit': b['unit'],
                           'tau0': spec['tau0'] + (spec['tau_order'][t] if spec.get('tau_order')
                                                   else t) * spec['dtau'],
                           'tau1': spec['tau0'] + ((spec['tau_order'][t] if spec.get('tau_order')
                                                    else t) + 1) * spec['dtau'],
                           'start': tuple(b.get('start', spec['start'])), 'data': a,
                           'reserved': '', 'bi': len(blocks)})
        pm = spec.get('permute')
        if pm and pm['t'] == t:
            blocks = [blocks[i] for i in pm['perm']]
        times.append(blocks)
    return {'title': spec['title'], 'modelname': spec['modelname'],
            'modelres': tuple(spec['modelres']), 'halfpolar': spec['halfpolar'],
            'center180': spec['center180'], 'times': times}


def write_tables(tables, d):
    with open(os.path.join(d, 'tracerinfo.dat'), 'w') as f:
        f.write(bpch.tracerinfo_text(tables['tracers']))
    with open(os.path.join(d, 'diaginfo.dat'), 'w') as f:
        f.write(bpch.diaginfo_text(tables['cats']))
    # modification times belong to the simulated clock (same-second rewrites)
    seams.stamp_file(os.path.join(d, 'tracerinfo.dat'))
    seams.stamp_file(os.path.join(d, 'diaginfo.dat'))


def expected(spec, doc):
    """{varname: {'raw': (nt, nl, nj, ni), 'scale', 'unit', 'cat', 'tid'}}"""
    tab = {(t['cat'], t['tid']): t for t in spec['tables']['tracers']}
    byid = {t['id']: t for t in spec['tables']['tracers']}
    out = {}
    for bi, b in enumerate(spec['blocks']):
        if b.get('unlisted'):
            # no row for offset + number: named after the bare number's row if
            # there is one, else by the number; scale 1, unit of the data block
            bare = byid.get(b['tid'])
            t = {'name': bare['name'] if bare else str(b['tid']), 'scale': 1.0, 'unit': b['unit']}
        else:
            offs = {c['category']: c['offset'] for c in spec['tables']['cats']}
            t = tab.get((b['cat'], b['tid'])) or byid[offs[b['cat']] + b['tid']]
        raw = np.stack([[x for x in doc['times'][ti] if x['bi'] == bi][0]['data']
                        for ti in range(spec['nt'])])
        out['%s_%s' % (b['cat'], t['name'])] = {
            'raw': raw.astype('f4'), 'scale': t['scale'], 'unit': t['unit'],
            'cat': b['cat'], 'tid': b['tid'], 'base_unit': b['unit'],
            # first cell of the block's window, zero-based (I, J, L)
            'start': [x - 1 for x in b.get('start', spec['start'])]}
    return out


def canon(f):
    out = {}
    for k in list(f.variables.keys()):
        v = f.variables[k]
        if hasattr(v, 'tracerid'):
            u = getattr(v, 'units', '')
            if isinstance(u, bytes):        # a tracer without a table row keeps the header's bytes
                u = u.decode('ascii', 'replace')
            out[k] = {'data': np.array(v[...], dtype='f8'), 'unit': str(u).strip(),
                      'cat': str(getattr(v, 'category', '')).strip(), 'tid': int(v.tracerid),
                      'start': [int(getattr(v, a, 0)) for a in ('STARTI', 'STARTJ', 'STARTK')],
                      'scale': float(getattr(v, 'scale', 1.0))}
    hdr = {'modelname': getattr(f, 'modelname', b''), 'modelres': list(np.asarray(f.modelres, 'f8')),
           'halfpolar': int(f.halfpolar), 'center180': int(f.center180)}
    if isinstance(hdr['modelname'], bytes):
        hdr['modelname'] = hdr['modelname'].decode()
    hdr['modelname'] = hdr['modelname'].strip()
    return {'vars': out, 'tau0': np.array(f.variables['tau0'][...], 'f8').tolist(),
            'tau1': np.array(f.variables['tau1'][...], 'f8').tolist(), 'hdr': hdr}


class State(object):
    def __init__(self, world, config):
        self.w = world
        self.c = config
        self.files = {}
        self.gfid = 0
        self.nfiles = 0
        self.queue = []
        self.outn = 0
        self.handles = []
        self.stats = {'evaluations': 0, 'nontrivial': False, 'files': 0, 'raw_roundtrips': 0,
                      'scaled_reads': 0, 'write_reads': 0, 'bpch2_compared': 0,
                      'bpch2_unavailable': 0, 'by_outdir': {}, 'by_schedule': {},
                      'cwd_changes': 0, 'known_hits': {}, 'pending_bytes_at_ack': 0}


def start(world, config):
    return State(world, config)


def gen_op(rng, st):
    if st.queue:
        return st.queue.pop(0)
    if st.nfiles >= st.c['files']:
        if st.nfiles == st.c['files']:
            st.nfiles += 1
            return {'op': 'final'}
        return None
    st.nfiles += 1
    fid = st.gfid
    st.gfid += 1
    ops = [{'op': 'mkfile', 'fid': fid, 'spec': gen_spec(rng), 'dir': 'site%d' % fid}]
    if rng.random() < 0.5:
        ops.append({'op': 'chdir', 'to': rng.choice(['root', 'foreign', 'site%d' % fid])})
    ops.append({'op': 'scaled_read', 'fid': fid})
    if rng.random() < 0.35:
        # ambient state changes between opens: the tables next to the file are
        # rewritten (new scale factors / units), the same file is opened again
        ops.append({'op': 'retable', 'fid': fid,
                    'scales': [rng.choice([1.0, 1e6, 1e3, 2.0]) for _ in range(8)],
                    'unit': rng.choice(['ppmv', 'pptv', 'Pa', 'degC'])})
        ops.append({'op': 'scaled_read', 'fid': fid})
    if rng.random() < 0.3:
        ops.append({'op': 'reopen', 'fid': fid})
    for kind in rng.sample(['raw_roundtrip', 'write_read', 'bpch2'], rng.randrange(1, 4)):
        if kind == 'bpch2':
            ops.append({'op': 'bpch2', 'fid': fid})
            continue
        st.outn += 1
        ops.append({'op': kind, 'fid': fid,
                    'outdir': rng.choice(['fresh', 'fresh', 'same-tables', 'foreign-tables']),
                    'out': 'out%d' % st.outn, 'sched': rng.choice(SCHEDULES),
                    # the file handed to the writer: the reader's object, or an
                    # in-memory file derived from it (copy / identity slice)
                    'via': rng.choice(['reader', 'reader', 'copy', 'slice', 'copy64']),
                    # the run directory's tables are replaced (the next model run)
                    # after the file was opened and before it is written
                    'retable_between': rng.random() < 0.25,
                    'scales': [rng.choice([1.0, 1e6, 1e3, 2.5]) for _ in range(8)],
                    # unscaled re-write from an in-memory copy that documents each
                    # tracer's table scale factor
                    'rawvia': rng.choice(['reader', 'reader', 'copy-with-scale']),
                    'aux': rng.random() < 0.4})
        if rng.random() < 0.3:
            ops.append({'op': 'collect'})
    st.queue = ops
    return st.queue.pop(0)


def _viol(st, inv, detail, **sig):
    full = dict(sig, invariant=inv)
    kn = st.w.known_match(full)
    if kn is not None:
        kh = st.stats['known_hits'].setdefault(kn, {'n': 0, 'example': None})
        kh['n'] += 1
        kh['example'] = kh['example'] or detail[:400]
        return
    raise Violation(inv, detail, sig=sig)


def _open(path, **kw):
    import PseudoNetCDF as pnc
    return pnc.pncopen(path, format='bpch1', **kw)


def _compare_scaled(st, f, got, what):
    exp = f['exp']
    if sorted(got['vars']) != sorted(exp):
        _viol(st, 'bpch-read-differs', '%s: tracer variables %s, expected %s' % (
            what, sorted(got['vars']), sorted(exp)), field='names')
        return
    for k, e in exp.items():
        g = got['vars'][k]
        want = e['raw'].astype('f8') * e['scale']
        if g['data'].shape != want.shape:
            _viol(st, 'bpch-read-differs', '%s: %s has shape %s, expected %s' % (
                what, k, g['data'].shape, want.shape), field='shape')
            continue
        if not np.allclose(g['data'], want, rtol=2e-6, atol=0):
            j = int(np.argmax(np.abs(g['data'] - want).ravel()))
            _viol(st, 'bpch-read-differs',
                  '%s: %s is not raw*scale (scale %g): %r vs %r at flat %d' % (
                      what, k, e['scale'], g['data'].ravel()[j], want.ravel()[j], j),
                  field='scaled-values')
        if g['unit'] != e['unit']:
            _viol(st, 'bpch-read-differs', '%s: unit of %s is %r, tracer table says %r' % (
                what, k, g['unit'], e['unit']), field='unit')
        if 'start' in g and list(g['start']) != list(e['start']):
            _viol(st, 'bpch-read-differs', '%s: window of %s starts at (I, J, L) = %s, the block '
                  'header says %s (zero-based)' % (what, k, g['start'], e['start']), field='start')
        if g['cat'] != e['cat'] or g['tid'] != e['tid']:
            _viol(st, 'bpch-read-differs', '%s: %s has category/tracer %s/%s, expected %s/%s' % (
                what, k, g['cat'], g['tid'], e['cat'], e['tid']), field='ids')
    d = f['doc']
    t0 = [b[0]['tau0'] for b in d['times']]
    t1 = [b[0]['tau1'] for b in d['times']]
    if got['tau0'] != t0 or got['tau1'] != t1:
        _viol(st, 'bpch-read-differs', '%s: time bounds %s/%s, expected %s/%s' % (
            what, got['tau0'], got['tau1'], t0, t1), field='time-bounds')
    h = got['hdr']
    if (h['modelname'] != d['modelname'] or [float(x) for x in h['modelres']] !=
            [float(x) for x in d['modelres']] or h['halfpolar'] != d['halfpolar'] or
            h['center180'] != d['center180']):
        _viol(st, 'bpch-read-differs', '%s: grid header %s, expected %s' % (
            what, h, {k: d[k] for k in ('modelname', 'modelres', 'halfpolar', 'center180')}),
            field='grid-header')


def _irregular(st, f, op):
    """A file whose time blocks are not all laid out alike.  The memory-mapped
    reader may refuse it (the block walker is the documented fallback); what
    it may not do is serve data under the wrong tracer."""
    import PseudoNetCDF as pnc
    w = st.w
    if op['op'] not in ('scaled_read', 'reopen', 'bpch2'):
        return {'note': 'noop'}
    st.stats['evaluations'] += 1
    st.stats['irregular_files'] = st.stats.get('irregular_files', 0) + 1
    w.probe('irregular_block_order')
    desc = 'file with %d time blocks, blocks %s in order %s at time %d' % (
        f['spec']['nt'], [(b['cat'], b['tid'], b['nl']) for b in f['spec']['blocks']],
        f['spec']['permute']['perm'], f['spec']['permute']['t'])
    try:
        got = canon(_open(f['path']))
    except BaseException as e:
        st.stats['irregular_refused'] = st.stats.get('irregular_refused', 0) + 1
        w.probe('irregular_file_refused_by_memmap_reader')
        try:
            got = canon(pnc.pncopen(f['path'], format='bpch2'))
        except BaseException as e2:
            st.stats['bpch2_unavailable'] += 1
            _viol(st, 'bpch2-reader-raised',
                  'the alternative block-walking reader raises on every file: %s: %s' % (
                      type(e2).__name__, e2), error=type(e2).__name__)
            return {'note': 'refused'}
        _compare_scaled(st, f, got, 'block-walking read of an irregular ' + desc)
        return {'note': 'fallback'}
    st.stats['irregular_accepted'] = st.stats.get('irregular_accepted', 0) + 1
    _compare_scaled(st, f, got, 'memory-mapped read of an irregular ' + desc)
    return {'note': 'accepted'}


def _outdir(st, op, f):
    d = st.w.path(op['out'])
    os.makedirs(d, exist_ok=True)
    kind = op['outdir']
    if op.get('via') in ('copy', 'slice', 'copy64') and kind == 'fresh':
        # an in-memory file carries no handle on its tables: the user supplies
        # them next to the output (the format's side-car convention)
        kind = 'same-tables'
    if kind == 'same-tables':
        write_tables(f['spec']['tables'], d)
    elif kind == 'foreign-tables':
        write_tables(st.foreign, d)
    st.stats['by_outdir'][kind] = st.stats['by_outdir'].get(kind, 0) + 1
    return d


def _schedule(st, h, sched):
    st.stats['by_schedule'][sched] = st.stats['by_schedule'].get(sched, 0) + 1
    if sched == 'close':
        try:
            h.close()
        except BaseException:
            pass
        st.w.fault('close')
        return None
    if sched in ('drop', 'drop+collect'):
        h = None
        st.w.fault('drop_reference')
        if sched == 'drop+collect':
            seams.GC.collect(2)
        return None
    st.handles.append(h)
    return h


def apply(st, op):
    from PseudoNetCDF.pncgen import pncgen
    w = st.w
    o = op['op']
    obs = {}
    if not hasattr(st, 'foreign'):
        # tables some other program left behind (different names, scales, offsets)
        st.foreign = {'cats': [{'offset': 0, 'category': 'IJ-AVG-$', 'comment': 'foreign'},
                               {'offset': 500, 'category': 'PEDGE-$', 'comment': 'foreign'}],
                      'tracers': [{'name': 'ZZ%d' % i, 'id': i, 'scale': 7.0, 'unit': 'furlongs',
                                   'cat': 'IJ-AVG-$', 'tid': i} for i in range(1, 8)]}
        os.makedirs(w.path('foreign'), exist_ok=True)
        write_tables(st.foreign, w.path('foreign'))
    if o == 'mkfile':
        import copy
        spec = copy.deepcopy(op['spec'])      # retable edits the tables
        d = w.path(op['dir'])
        os.makedirs(d, exist_ok=True)
        doc = doc_of(spec)
        buf, meta = bpch.encode(doc)
        path = os.path.join(d, 'f%d.bpch' % op['fid'])
        with open(path, 'wb') as fh:
            fh.write(buf)
        seams.stamp_file(path)
        write_tables(spec['tables'], d)
        st.files[op['fid']] = {'path': path, 'spec': spec, 'doc': doc, 'bytes': buf,
                               'exp': expected(spec, doc), 'dir': d}
        st.stats['files'] += 1
        return {'size': len(buf)}
    if o == 'chdir':
        os.chdir({'root': w.root, 'foreign': w.path('foreign')}.get(op['to'], w.path(op['to']))
                 if os.path.isdir({'root': w.root, 'foreign': w.path('foreign')}.get(
                     op['to'], w.path(op['to']))) else w.root)
        st.stats['cwd_changes'] += 1
        w.fault('cwd_changed')
        return {}
    if o == 'collect':
        seams.GC.collect(2)
        w.fault('gc_between')
        return {}
    if o == 'final':
        for h in st.handles:
            try:
                h.close()
            except BaseException:
                pass
        st.handles = []
        seams.GC.collect(2)
        return {}
    f = st.files.get(op['fid'])
    if f is None:
        return {'note': 'noop'}
    if f['spec'].get('permute'):
        return _irregular(st, f, op)
    st.stats['evaluations'] += 1
    desc = 'file with %d time blocks, blocks %s, grid %dx%d start %s' % (
        f['spec']['nt'], [(b['cat'], b['tid'], b['nl']) for b in f['spec']['blocks']],
        f['spec']['ni'], f['spec']['nj'], f['spec']['start'])
    if o == 'retable':
        tab = f['spec']['tables']
        for i, t in enumerate(tab['tracers']):
            t['scale'] = op['scales'][i % len(op['scales'])]
            t['unit'] = op['unit']
        write_tables(tab, f['dir'])
        f['exp'] = expected(f['spec'], f['doc'])
        w.fault('sidecar_tables_rewritten')
        return {}
    if o == 'reopen':
        # two opens of the same file with unchanged surroundings present the same
        try:
            a = canon(_open(f['path']))
            b = canon(_open(f['path']))
        except BaseException as e:
            _viol(st, 'bpch-read-raised', '%s: %s: %s' % (desc, type(e).__name__, e),
                  error=type(e).__name__)
            return {}
        if sorted(a['vars']) != sorted(b['vars']) or any(
                a['vars'][k]['unit'] != b['vars'][k]['unit'] or
                not np.array_equal(a['vars'][k]['data'], b['vars'][k]['data'])
                for k in a['vars'] if k in b['vars']):
            _viol(st, 'bpch-read-differs', 'second open of the same file presents %s, first '
                  'open %s; %s' % (sorted(b['vars']), sorted(a['vars']), desc), field='reopen')
        return {}
    if o == 'scaled_read':
        st.stats['scaled_reads'] += 1
        try:
            g = _open(f['path'])
            got = canon(g)
        except BaseException as e:
            _viol(st, 'bpch-read-raised', '%s: %s: %s' % (desc, type(e).__name__, e),
                  error=type(e).__name__)
            return {}
        _compare_scaled(st, f, got, 'scaled read of a ' + desc)
    elif o == 'raw_roundtrip':
        st.stats['raw_roundtrips'] += 1
        try:
            g = _open(f['path'], noscale=True)
            if op.get('rawvia') == 'copy-with-scale' and not any(
                    'ni' in b or 'nj' in b for b in f['spec']['blocks']):
                g = g.copy()
                for k, e in f['exp'].items():
                    if k in g.variables:
                        g.variables[k].scale = e['scale']
                w.probe('unscaled_rewrite_from_copy_documenting_scale')
                op = dict(op, via='copy')        # tables are supplied next to the output
            d = _outdir(st, op, f)
            out = os.path.join(d, 'rt.bpch')
            h = pncgen(g, out, format='bpch', verbose=0)
        except BaseException as e:
            _viol(st, 'bpch-rewrite-raised', '%s: %s: %s' % (desc, type(e).__name__, e),
                  error=type(e).__name__)
            return {}
        ack = out + '.ack'
        shutil.copyfile(out, ack)
        w.fault('crash_at_ack_image')
        _schedule(st, h, op['sched'])
        st.stats['nontrivial'] = True
        for which, p in (('ack', ack), ('path', out)):
            with open(p, 'rb') as fh:
                b = fh.read()
            if which == 'path' and op['sched'] == 'retain':
                continue
            if b != f['bytes']:
                n = min(len(b), len(f['bytes']))
                first = next((i for i in range(n) if b[i] != f['bytes'][i]), n)
                _viol(st, 'bpch-rewrite-not-byte-identical',
                      '%s image of the unscaled re-write (%d bytes) differs from the original '
                      '(%d bytes) at byte %d; %s' % (which, len(b), len(f['bytes']), first, desc),
                      which=which)
        st.stats['pending_bytes_at_ack'] += abs(os.path.getsize(out) - os.path.getsize(ack))
    elif o == 'write_read':
        st.stats['write_reads'] += 1
        if any('ni' in b or 'nj' in b for b in f['spec']['blocks']) and op.get('via') != 'reader':
            # The reader names every tracer's horizontal dimensions after the first
            # block's (latitude, longitude), so copy()/slice of such a file re-shapes a
            # zonal mean to the full window before any writer runs: that is a question
            # about copy fidelity, not about C18.  Files with per-block windows are
            # written from the reader's own object only.
            op = dict(op, via='reader')
            w.probe('per_block_window_written_from_reader_object')
        try:
            g = _open(f['path'])
            if op.get('via') == 'copy64':
                # an in-memory file whose tracer arrays are float64 (computed data)
                from PseudoNetCDF.core._variables import PseudoNetCDFVariable
                g = g.copy()
                for k in list(g.variables.keys()):
                    v = g.variables[k]
                    if hasattr(v, 'tracerid'):
                        at = {a: getattr(v, a) for a in v.ncattrs()}
                        g.variables[k] = PseudoNetCDFVariable(
                            g, k, 'd', v.dimensions, values=np.array(v[...], dtype='d'), **at)
            elif op.get('via') == 'copy':
                g = g.copy()
                if op.get('aux'):
                    # the user adds a field of their own (no tracer id): not a punch-file
                    # block, the writer leaves it out
                    tk = [k for k, v in g.variables.items() if hasattr(v, 'tracerid')][0]
                    tv = g.variables[tk]
                    av = g.createVariable('MY_AUX_FIELD', 'f', tv.dimensions)
                    av[...] = np.asarray(tv[...], dtype='f') * 0 + 7.
                    av.units = 'hPa'
                    w.probe('source_carries_a_non_tracer_variable')
            elif op.get('via') == 'slice':
                g = g.sliceDimensions(time=slice(None))
            before = {k: np.array(v[...]) for k, v in g.variables.items()
                      if hasattr(v, 'tracerid')} if op.get('via') in ('copy', 'slice', 'copy64') else None
            exp_at_open = f['exp']
            if op.get('retable_between') and op.get('via') == 'reader' and op['outdir'] == 'fresh':
                # new tables appear under the old names (rename, as a model run would):
                # the open reader and what it writes keep the tables it was opened with
                import copy as _copy
                tab = _copy.deepcopy(f['spec']['tables'])
                for i, t in enumerate(tab['tracers']):
                    t['scale'] = op['scales'][i % len(op['scales'])]
                tmpd = w.path('newtables_%s' % op['out'])
                os.makedirs(tmpd, exist_ok=True)
                write_tables(tab, tmpd)
                for nm in ('tracerinfo.dat', 'diaginfo.dat'):
                    os.replace(os.path.join(tmpd, nm), os.path.join(f['dir'], nm))
                f['spec']['tables'] = tab
                f['exp'] = expected(f['spec'], f['doc'])
                w.fault('sidecar_tables_replaced_while_file_open')
            d = _outdir(st, op, f)
            out = os.path.join(d, 'wr.bpch')
            h = pncgen(g, out, format='bpch', verbose=0)
            if before is not None:
                # writing is a query: the in-memory source must be what it was
                for k, a in before.items():
                    b = np.array(g.variables[k][...])
                    if a.tobytes() != b.tobytes():
                        _viol(st, 'bpch-writer-modified-source',
                              'after one write the %s source holds %r where it held %r (%s); %s' % (
                                  op['via'], float(b.ravel()[0]), float(a.ravel()[0]), k, desc),
                              via=op['via'])
                        break
        except Violation:
            raise
        except BaseException as e:
            _viol(st, 'bpch-write-raised', '%s: %s: %s' % (desc, type(e).__name__, e),
                  error=type(e).__name__)
            return {}
        ack = os.path.join(d, 'wr_ack.bpch')
        shutil.copyfile(out, ack)
        w.fault('crash_at_ack_image')
        _schedule(st, h, op['sched'])
        st.stats['nontrivial'] = True
        try:
            got = canon(_open(ack))
        except BaseException as e:
            _viol(st, 'bpch-written-file-not-read', '%s (output directory %s): %s: %s' % (
                desc, op['outdir'], type(e).__name__, e),
                error=type(e).__name__, outdir=op['outdir'])
            return {}
        try:
            _compare_scaled(st, dict(f, exp=exp_at_open), got,
                            'write+read (output directory with %s) of a %s' % (op['outdir'], desc))
        except Violation as v:
            v.sig['outdir'] = op['outdir']
            kn = w.known_match(dict(v.sig, invariant=v.invariant))
            if kn is not None:
                kh = st.stats['known_hits'].setdefault(kn, {'n': 0, 'example': None})
                kh['n'] += 1
                kh['example'] = kh['example'] or v.detail[:400]
                return {}
            raise
    elif o == 'bpch2':
        import PseudoNetCDF as pnc
        try:
            g2 = pnc.pncopen(f['path'], format='bpch2')
        except BaseException as e:
            st.stats['bpch2_unavailable'] += 1
            _viol(st, 'bpch2-reader-raised',
                  'the alternative block-walking reader raises on every file: %s: %s' % (
                      type(e).__name__, e), error=type(e).__name__)
            return {}
        st.stats['bpch2_compared'] += 1
        g1 = _open(f['path'])
        for k, v in g1.variables.items():
            if hasattr(v, 'tracerid'):
                a = np.array(v[...], 'f8')
                if k not in g2.variables or not np.allclose(np.array(g2.variables[k][...], 'f8'), a,
                                                            rtol=2e-6, atol=0):
                    _viol(st, 'bpch2-differs-from-bpch1', '%s: variable %s' % (desc, k))
    else:
        raise HarnessError('unknown op %r' % (op,))
    w.abstract(o, op.get('outdir', '-'), op.get('sched', '-'), len(f['spec']['blocks']),
               f['spec']['nt'])
    return obs


def finish(st):
    pass


def stats(st):
    return st.stats


def simplify_op(op):
    out = []
    if op.get('op') == 'mkfile':
        sp = op['spec']
        if sp['nt'] > 1:
            out.append(dict(op, spec=dict(sp, nt=sp['nt'] - 1)))
        if len(sp['blocks']) > 1:
            out.append(dict(op, spec=dict(sp, blocks=sp['blocks'][:1])))
        for k in ('ni', 'nj'):
            if sp[k] > 1:
                out.append(dict(op, spec=dict(sp, **{k: 1})))
    if op.get('outdir') and op['outdir'] != 'fresh':
        out.append(dict(op, outdir='fresh'))
    return out
