"""C08 / C09 — CAMx binary write/read round trip, idempotent rewrite, and
conformance to the published layout through an independent codec.

As in C07 the simulator owns what lies between writer and reader: the durable
image at the instant the writer returns (every CAMx writer returns a still
open, partly buffered handle), the schedule of that handle, and what happens
between the first write and the re-write (clock jumps, collections, unrelated
writes).  The "other program" on the far side of the disk is a stub peer: the
reference codec of sim.refcodec.camx.
"""
import os
import shutil

import numpy as np

from .core import seams
from .core.world import Violation, HarnessError
from .refcodec import camx
from .refcodec.fortran import RecordError

NAME = 'ack_camx'
PROPERTIES = ['C08', 'C09']

FORMATS = ['uamiv', 'lateral_boundary', 'temperature', 'wind', 'height_pressure',
           'humidity', 'vertical_diffusivity', 'one3d', 'cloud_rain', 'landuse']
SCHEDULES = ['retain', 'close', 'drop', 'drop+collect', 'close2']
SPECIES = ['O3', 'NO2', 'CO', 'PAR', 'ISOP', 'HNO3', 'PM25_SO4XX', 'N2O5', 'A1B2C3D4E5',
           'OLE', 'NH3', 'X']


def gen_config(rng, tier):
    return {'cycles': rng.randrange(1, 3) if tier == 'quick' else rng.randrange(1, 5),
            'formats': rng.sample(FORMATS, rng.randrange(1, 4)),
            'clock': rng.choice(['steady', 'jumpy']),
            'max_steps': 200}


def gen_spec(rng, fmt):
    year = rng.choice([1970, 1987, 1999, 2000, 2002, 2004, 2011, 2024, 2068, 2069])
    leap = (year % 4 == 0 and (year % 100 != 0 or year % 400 == 0))
    jday = rng.choice([1, 31, 59, 60, 154, 365, 366 if leap else 365, rng.randrange(1, 366)])
    hour = rng.choice([0, 1, 11, 12, 21, 22, 23, rng.randrange(24)])
    if year == 2069 and jday >= 340:
        # the two-digit-year window ends with 2069: no begin or END flag may fall into
        # 2070 (up to 4 steps of 72 h = 12 days plus the rounding of the last period)
        jday = 300
    spec = {'fmt': fmt, 'nx': rng.randrange(1, 6), 'ny': rng.randrange(1, 6),
            'nz': rng.randrange(1, 4), 'nt': rng.randrange(1, 5),
            'sdate': year * 1000 + jday, 'stime': float(hour),
            'special': rng.random() < 0.5,
            # output interval in whole hours (daily files repeat the hour, only the date moves)
            'dt': rng.choice([1, 1, 1, 3, 6, 24, 48, 72]),
            # a source that did not come from a CAMx reader has no ETFLAG variable
            'etflag_in_source': rng.random() < 0.8,
            # variables need not have been created in VAR-LIST order
            'creation': rng.choice(['listed', 'listed', 'reversed', 'rotated']),
            # a computed source often carries float64 arrays (values representable in float32)
            'srcdtype': rng.choice(['f', 'f', 'd']),
            # memory layout of the source arrays (a transposed model buffer is F-ordered)
            'layout': rng.choice(['C', 'C', 'F']),
            # the source is a window cut out of a larger in-memory file before writing
            'window': rng.random() < 0.3,
            # the output path already holds an older, longer export
            'stale_output': rng.random() < 0.2}
    if fmt in ('uamiv', 'lateral_boundary'):
        n = rng.randrange(1, 5)
        spec['species'] = rng.sample(SPECIES, n)
        spec['name'] = rng.choice(['AVERAGE', 'EMISSIONS', 'INSTANT', 'AIRQUALITY']) \
            if fmt == 'uamiv' else 'BOUNDARY'
        spec['note'] = rng.choice(['stub producer', 'CAMx v4.42 test run 01', 'x'])
        spec['itzon'] = rng.choice([0, 5, 6, 8])
        spec['iproj'] = rng.choice([0, 1, 2, 3])
        spec['iutm'] = rng.choice([0, 15])
        spec['plon'] = rng.choice([-97.0, -100.5, 0.0])
        spec['plat'] = {3: rng.choice([90.0, -90.0])}.get(spec['iproj'], rng.choice([40.0, 34.25]))
        spec['tlat1'] = rng.choice([33.0, 30.0])
        spec['tlat2'] = rng.choice([45.0, 60.0])
        spec['xorg'] = rng.choice([-108000.0, 0.0, 12.5])
        spec['yorg'] = rng.choice([-1584000.0, 0.0, -7.25])
        spec['delx'] = rng.choice([12000.0, 4000.0, 0.5])
        spec['dely'] = rng.choice([12000.0, 4000.0, 0.25])
        spec['istag'] = rng.choice([0, 1])
        if fmt == 'lateral_boundary':
            spec['nx'] = max(spec['nx'], 3)
            spec['ny'] = max(spec['ny'], 3)
    elif fmt == 'landuse':
        spec['nland'] = rng.choice([11, 26])
        spec['extra'] = rng.choice([[], [], ['VAR1'], ['LAI', 'TOPO']])
        spec['nt'] = 1
    else:
        spec['kind'] = fmt
        spec['lstagger'] = rng.choice([0, 1])
        if fmt == 'cloud_rain':
            # the 20-character header text is often shorter and blank-padded
            spec['cldhdr'] = rng.choice(['CAMx_V4.3 CLOUD_RAIN', 'CAMx CLOUD', 'CLOUD RAIN v5  x',
                                         'CAMx_V4.3 CLOUD_RAIN'])
    return spec


def _special(a, on):
    """sprinkle denormals / negative zero / extremes into a float32 field"""
    if on and a.size > 3:
        f = a.reshape(-1)
        f[0] = np.float32(-0.0)
        f[1] = np.finfo('f4').tiny / 8          # denormal
        f[2] = np.finfo('f4').max
        f[3] = -np.finfo('f4').tiny
    return a


# ---------------------------------------------------------------------------
# canonical content: {'vars': {name: (nt, ...) float32}, 'order': [...],
#   'tflag': [(yyyyjjj, hhmmss)], 'etflag': [...] | None, 'hdr': {...}}
# ---------------------------------------------------------------------------
def truth_of(spec):
    fmt = spec['fmt']
    if fmt == 'uamiv':
        g = camx.gridded_from_spec(spec)
        _special(g['data'], spec.get('special'))
        vars_ = {s: np.asarray(g['data'][:, i], dtype='f4') for i, s in enumerate(g['species'])}
        order = list(g['species'])
        model = g
    elif fmt == 'lateral_boundary':
        g = camx.boundary_from_spec(spec)
        for e in camx.EDGES:
            _special(g['edges'][e], spec.get('special'))
        vars_ = {}
        order = []
        for i, s in enumerate(g['species']):
            for e in camx.EDGES:
                vars_['%s_%s' % (e, s)] = np.asarray(g['edges'][e][:, i], dtype='f4')
                order.append('%s_%s' % (e, s))
        model = g
    elif fmt == 'landuse':
        m = camx.landuse_from_spec(spec)
        key = 'LUCAT%02d' % m['nland']
        vars_ = {key: np.asarray(m['FLAND'], dtype='f4')[None]}
        order = [key]
        for k, a in m['extra']:
            vars_[k] = np.asarray(a, dtype='f4')[None]
            order.append(k)
        return {'vars': vars_, 'order': order, 'tflag': [], 'etflag': None,
                'hdr': {'nx': spec['nx'], 'ny': spec['ny']}, 'model': m, 'ordered': True}
    elif fmt == 'cloud_rain':
        m = camx.cloud_rain_from_spec(spec)
        for a in m['fields'].values():
            _special(a, spec.get('special'))
        vars_ = {k: np.asarray(v, dtype='f4') for k, v in m['fields'].items()}
        order = list(camx.CR_VARS)
        return {'vars': vars_, 'order': order,
                'tflag': [(d, int(round(h)) * 100) for d, h in m['times']], 'etflag': None,
                'hdr': {'nx': spec['nx'], 'ny': spec['ny'], 'nz': spec['nz'],
                        'cldhdr': m['cldhdr'].strip()}, 'model': m, 'ordered': False}
    else:
        m = camx.met_from_spec(spec)
        for a in m['fields'].values():
            _special(a, spec.get('special'))
        f = m['fields']
        names = {'temperature': {'SURF': 'SURFTEMP', 'AIR': 'AIRTEMP'},
                 'wind': {'U': 'U', 'V': 'V'},
                 'height_pressure': {'HGHT': 'HGHT', 'PRES': 'PRES'},
                 'humidity': {'X': 'HUM'}, 'vertical_diffusivity': {'X': 'KV'},
                 'one3d': {'X': 'UNKNOWN'}}[fmt]
        vars_ = {names[k]: np.asarray(v, dtype='f4') for k, v in f.items()}
        order = [names[k] for k in f]
        model = m
    if fmt in ('uamiv', 'lateral_boundary'):
        tflag = [(t[0], int(round(t[1])) * 10000) for t in model['times']]
        etflag = [(t[2], int(round(t[3])) * 10000) for t in model['times']]
        hdr = {k: model[k] for k in ('name', 'note', 'itzon', 'plon', 'plat', 'iutm', 'xorg',
                                     'yorg', 'delx', 'dely', 'nx', 'ny', 'nz', 'iproj',
                                     'istag', 'tlat1', 'tlat2')}
        hdr['note'] = hdr['note'].strip()
    else:
        tflag = [(d, int(round(h)) * 100) for d, h in model['times']]
        etflag = None
        hdr = {'nx': spec['nx'], 'ny': spec['ny'], 'nz': spec['nz']}
        if fmt == 'wind':
            hdr['lstagger'] = spec.get('lstagger', 0)
    return {'vars': vars_, 'order': order, 'tflag': tflag, 'etflag': etflag,
            'hdr': hdr, 'model': model,
            'ordered': fmt in ('uamiv', 'lateral_boundary')}


def build_source(spec, truth):
    """in-memory CAMx-convention file, built by the scenario (not by a reader)"""
    import PseudoNetCDF as pnc
    fmt = spec['fmt']
    f = pnc.PseudoNetCDFFile()
    if fmt == 'landuse':
        m = truth['model']
        f.createDimension('LANDUSE', m['nland'])
        f.createDimension('ROW', spec['ny'])
        f.createDimension('COL', spec['nx'])
        for k in truth['order']:
            a = truth['vars'][k][0]
            v = f.createVariable(k, spec.get('srcdtype', 'f'),
                                 ('LANDUSE', 'ROW', 'COL') if a.ndim == 3 else ('ROW', 'COL'))
            v.units = 'Fraction' if a.ndim == 3 else ''
            v.long_name = k.ljust(16)
            v.var_desc = k.ljust(16)
            v[...] = a
        return f
    nt = spec['nt']
    d = f.createDimension('TSTEP', nt)
    d.setunlimited(True)
    f.createDimension('DATE-TIME', 2)
    nvar = len(truth['order'])
    f.createDimension('VAR', nvar)
    f.createDimension('LAY', spec['nz'])
    f.createDimension('ROW', spec['ny'])
    f.createDimension('COL', spec['nx'])
    tf = f.createVariable('TFLAG', 'i', ('TSTEP', 'VAR', 'DATE-TIME'))
    tf.units = '<YYYYDDD,HHMMSS>'
    tf.long_name = 'TFLAG'.ljust(16)
    tf.var_desc = 'TFLAG'.ljust(80)
    for t, (dd, tt) in enumerate(truth['tflag']):
        tf[t, :, 0] = dd
        tf[t, :, 1] = tt
    if truth['etflag'] is not None and spec.get('etflag_in_source', True):
        ef = f.createVariable('ETFLAG', 'i', ('TSTEP', 'VAR', 'DATE-TIME'))
        ef.units = '<YYYYDDD,HHMMSS>'
        ef.long_name = 'ETFLAG'.ljust(16)
        ef.var_desc = 'ETFLAG'.ljust(80)
        for t, (dd, tt) in enumerate(truth['etflag']):
            ef[t, :, 0] = dd
            ef[t, :, 1] = tt
    created = list(truth['order'])
    if spec.get('creation') == 'reversed':
        created = created[::-1]
    elif spec.get('creation') == 'rotated' and len(created) > 1:
        created = created[1:] + created[:1]
    for k in created:
        a = truth['vars'][k]
        if fmt == 'lateral_boundary':
            dims = ('TSTEP', 'ROW', 'LAY') if k.split('_')[0] in ('WEST', 'EAST') \
                else ('TSTEP', 'COL', 'LAY')
        elif a.ndim == 3:
            dims = ('TSTEP', 'ROW', 'COL')
        else:
            dims = ('TSTEP', 'LAY', 'ROW', 'COL')
        if spec.get('layout') == 'F' and a.ndim >= 2:
            src = np.asfortranarray(a.astype(spec.get('srcdtype', 'f')))
            v = f.createVariable(k, spec.get('srcdtype', 'f'), dims, values=src)
        else:
            v = f.createVariable(k, spec.get('srcdtype', 'f'), dims)
            v[...] = a
        v.units = 'ppm'.ljust(16)
        v.long_name = k.ljust(16)
        v.var_desc = k.ljust(80)
    setattr(f, 'VAR-LIST', ''.join(k.ljust(16) for k in truth['order']))
    f.NVARS = nvar
    f.NLAYS = spec['nz']
    f.NROWS = spec['ny']
    f.NCOLS = spec['nx']
    f.SDATE = np.int32(truth['tflag'][0][0])
    f.STIME = np.int32(truth['tflag'][0][1])
    f.TSTEP = np.int32(int(spec.get('dt', 1)) * 10000)
    h = truth['hdr']
    if fmt in ('uamiv', 'lateral_boundary'):
        f.NAME = h['name'].ljust(10)
        f.NOTE = h['note'].ljust(60)
        f.ITZON = np.int32(h['itzon'])
        f.PLON = np.float32(h['plon'])
        f.PLAT = np.float32(h['plat'])
        f.IUTM = np.int32(h['iutm'])
        f.XORIG = np.float32(h['xorg'])
        f.YORIG = np.float32(h['yorg'])
        f.XCELL = np.float32(h['delx'])
        f.YCELL = np.float32(h['dely'])
        f.CPROJ = np.int32(h['iproj'])
        f.TLAT1 = np.float32(h['tlat1'])
        f.TLAT2 = np.float32(h['tlat2'])
        f.ISTAG = np.int32(h['istag'])
    if fmt == 'wind':
        f.LSTAGGER = np.array(h['lstagger'], dtype='>i')
    if fmt == 'cloud_rain':
        f.FILEDESC = truth['model']['cldhdr'].ljust(20)[:20]
    return f


def windowed_source(spec, truth):
    """The same content obtained the way a user often gets it: a larger file
    (two extra columns and rows, one extra layer for 3-D formats) is built and
    the wanted window is cut out with sliceDimensions.  The generic slicer
    keeps global attributes (NCOLS, NROWS, NLAYS ...) of the parent."""
    fmt = spec['fmt']
    if fmt in ('lateral_boundary', 'landuse'):
        return build_source(spec, truth)
    big = dict(spec, nx=spec['nx'] + 2, ny=spec['ny'] + 2, nz=spec['nz'] + 1)
    tb = truth_of(big)
    for k, a in truth['vars'].items():
        if a.ndim == 4:
            tb['vars'][k][:, :spec['nz'], 1:1 + spec['ny'], 1:1 + spec['nx']] = a
        else:
            tb['vars'][k][:, 1:1 + spec['ny'], 1:1 + spec['nx']] = a
    fb = build_source(dict(big, layout='C'), tb)
    return fb.sliceDimensions(COL=slice(1, 1 + spec['nx']), ROW=slice(1, 1 + spec['ny']),
                              LAY=slice(0, spec['nz']))


def library_write(f, path, fmt, spec):
    from PseudoNetCDF.pncgen import pncgen
    kw = {}
    return pncgen(f, path, format=fmt, verbose=0, **kw)


def library_read(path, fmt, spec):
    import PseudoNetCDF as pnc
    if fmt in ('uamiv', 'lateral_boundary'):
        return pnc.pncopen(path, format=fmt)
    return pnc.pncopen(path, format=fmt, rows=spec['ny'], cols=spec['nx'])


def canon_from_library(f, fmt):
    vars_ = {}
    order = []
    tflag = etflag = None
    for k in list(f.variables.keys()):
        a = np.array(f.variables[k][...])
        if k == 'TFLAG':
            tflag = [(int(x[0]), int(x[1])) for x in a[:, 0, :]]
        elif k == 'ETFLAG':
            etflag = [(int(x[0]), int(x[1])) for x in a[:, 0, :]]
        else:
            vars_[k] = a.astype('f4') if a.dtype != np.dtype('f4') else a
            if fmt == 'landuse':
                vars_[k] = vars_[k][None]
            order.append(k)
    if fmt == 'landuse':
        return {'vars': vars_, 'order': order, 'tflag': [], 'etflag': None,
                'hdr': {'nx': len(f.dimensions['COL']), 'ny': len(f.dimensions['ROW'])}}
    hdr = {}
    if fmt in ('uamiv', 'lateral_boundary'):
        m = {'name': 'NAME', 'note': 'NOTE', 'itzon': 'ITZON', 'plon': 'PLON', 'plat': 'PLAT',
             'iutm': 'IUTM', 'xorg': 'XORIG', 'yorg': 'YORIG', 'delx': 'XCELL', 'dely': 'YCELL',
             'iproj': 'CPROJ', 'istag': 'ISTAG', 'tlat1': 'TLAT1', 'tlat2': 'TLAT2'}
        for k, a in m.items():
            v = getattr(f, a, None)
            if isinstance(v, str):
                v = v.strip()
            hdr[k] = v
    hdr['nx'] = len(f.dimensions['COL'])
    hdr['ny'] = len(f.dimensions['ROW'])
    hdr['nz'] = len(f.dimensions['LAY'])
    if fmt == 'cloud_rain':
        hdr['cldhdr'] = str(getattr(f, 'FILEDESC', '')).strip()
    if fmt == 'wind':
        try:
            hdr['lstagger'] = int(np.asarray(f.LSTAGGER))
        except Exception:
            hdr['lstagger'] = repr(getattr(f, 'LSTAGGER', None))
    return {'vars': vars_, 'order': order, 'tflag': tflag, 'etflag': etflag, 'hdr': hdr}


def canon_from_reference(buf, fmt, spec):
    if fmt == 'uamiv':
        g = camx.decode_gridded(buf)
        vars_ = {s: np.asarray(g['data'][:, i], dtype='f4') for i, s in enumerate(g['species'])}
        order = list(g['species'])
    elif fmt == 'lateral_boundary':
        g = camx.decode_boundary(buf)
        vars_ = {}
        order = []
        for i, s in enumerate(g['species']):
            for e in camx.EDGES:
                vars_['%s_%s' % (e, s)] = np.asarray(g['edges'][e][:, i], dtype='f4')
                order.append('%s_%s' % (e, s))
    elif fmt == 'landuse':
        m = camx.decode_landuse(buf, spec['nx'], spec['ny'])
        key = 'LUCAT%02d' % m['nland']
        vars_ = {key: np.asarray(m['FLAND'], dtype='f4')[None]}
        order = [key]
        for k, a in m['extra']:
            vars_[k] = np.asarray(a, dtype='f4')[None]
            order.append(k)
        return {'vars': vars_, 'order': order, 'tflag': [], 'etflag': None,
                'hdr': {'nx': m['nx'], 'ny': m['ny']}}
    elif fmt == 'cloud_rain':
        m = camx.decode_cloud_rain(buf)
        return {'vars': {k: np.asarray(v, dtype='f4') for k, v in m['fields'].items()},
                'order': list(camx.CR_VARS),
                'tflag': [(camx.yyyyjjj(d), int(round(h)) * 100) for d, h in m['times']],
                'etflag': None,
                'hdr': {'nx': m['nx'], 'ny': m['ny'], 'nz': m['nz'],
                        'cldhdr': m['cldhdr'].strip()}}
    else:
        m = camx.decode_met(buf, fmt, spec['nx'], spec['ny'])
        names = {'temperature': {'SURF': 'SURFTEMP', 'AIR': 'AIRTEMP'},
                 'wind': {'U': 'U', 'V': 'V'},
                 'height_pressure': {'HGHT': 'HGHT', 'PRES': 'PRES'},
                 'humidity': {'X': 'HUM'}, 'vertical_diffusivity': {'X': 'KV'},
                 'one3d': {'X': 'UNKNOWN'}}[fmt]
        vars_ = {names[k]: np.asarray(v, dtype='f4') for k, v in m['fields'].items()}
        order = [names[k] for k in m['fields']]
        tflag = [(camx.yyyyjjj(d), int(round(h)) * 100) for d, h in m['times']]
        hdr = {'nx': m['nx'], 'ny': m['ny'], 'nz': m['nz']}
        if fmt == 'wind':
            hdr['lstagger'] = m['lstagger']
        return {'vars': vars_, 'order': order, 'tflag': tflag, 'etflag': None, 'hdr': hdr}
    tflag = [(camx.yyyyjjj(t[0]), int(round(t[1])) * 10000) for t in g['times']]
    etflag = [(camx.yyyyjjj(t[2]), int(round(t[3])) * 10000) for t in g['times']]
    hdr = {k: g[k] for k in ('name', 'note', 'itzon', 'plon', 'plat', 'iutm', 'xorg', 'yorg',
                             'delx', 'dely', 'nx', 'ny', 'nz', 'iproj', 'istag', 'tlat1',
                             'tlat2')}
    hdr['note'] = hdr['note'].strip()
    # file-header begin/end must agree with the first/last time record
    t0, t1 = g['times'][0], g['times'][-1]
    hdr['_hdr_times_ok'] = (tuple(g['hdr_times'][:2]) == tuple(t0[:2]) and
                            tuple(g['hdr_times'][2:]) == tuple(t1[2:]))
    hdr['_hdr_times'] = (list(g['hdr_times']), list(t0), list(t1))
    return {'vars': vars_, 'order': order, 'tflag': tflag, 'etflag': etflag, 'hdr': hdr}


def _f32eq(a, b):
    return np.asarray(a, dtype='f4').tobytes() == np.asarray(b, dtype='f4').tobytes()


def _sq(shape):
    return tuple(int(x) for x in shape if x != 1)


def compare(truth, got, what, check_etflag=True):
    """[(field, detail)] differences between canonical contents"""
    out = []
    if truth.get('ordered', True):
        if [k for k in got['order']] != list(truth['order']):
            out.append(('species-order', '%s: variables %s, expected %s' % (
                what, got['order'], truth['order'])))
    elif sorted(got['order']) != sorted(truth['order']):
        # the meteorological formats have fixed field names, not a species list
        out.append(('variables', '%s: variables %s, expected %s' % (
            what, sorted(got['order']), sorted(truth['order']))))
    for k in truth['order']:
        if k not in got['vars']:
            continue
        a, t = got['vars'][k], truth['vars'][k]
        if a.shape != t.shape:
            if _sq(a.shape) == _sq(t.shape) and a.size == t.size:
                a = a.reshape(t.shape)       # equal up to length-1 axes
            else:
                out.append(('shape', '%s: %s has shape %s, expected %s' % (what, k, a.shape, t.shape)))
                continue
        if not _f32eq(a, t):
            bad = np.nonzero(np.asarray(a, 'f4').view('u4').ravel() !=
                             np.asarray(t, 'f4').view('u4').ravel())[0]
            j = int(bad[0])
            out.append(('data', '%s: %s differs in %d cells (first flat %d: %r, expected %r)' % (
                what, k, bad.size, j, float(np.asarray(a).ravel()[j]),
                float(np.asarray(t).ravel()[j]))))
    if got['tflag'] != truth['tflag']:
        out.append(('tflag', '%s: begin time flags %s, expected %s' % (
            what, got['tflag'], truth['tflag'])))
    if check_etflag and truth['etflag'] is not None and got['etflag'] is not None \
            and got['etflag'] != truth['etflag']:
        out.append(('etflag', '%s: end time flags %s, expected %s' % (
            what, got['etflag'], truth['etflag'])))
    for k, v in truth['hdr'].items():
        if k not in got['hdr']:
            continue
        g = got['hdr'][k]
        same = (g == v)
        if isinstance(v, float) or isinstance(g, (float, np.floating)):
            try:
                same = np.float32(g) == np.float32(v)
            except Exception:
                same = False
        if not same:
            out.append(('header', '%s: header %s is %r, expected %r' % (what, k, g, v)))
    if got['hdr'].get('_hdr_times_ok') is False:
        out.append(('header', '%s: file-header begin/end %s disagree with first/last time '
                    'records %s %s' % ((what,) + tuple(got['hdr']['_hdr_times']))))
    return out


# ---------------------------------------------------------------------------
class State(object):
    def __init__(self, world, config):
        self.w = world
        self.c = config
        self.focus = config.get('prop')
        self.cycle = 0
        self.queue = []
        self.wr = {}
        self.gcid = 0
        self.stats = {'writes': 0, 'images_checked': 0, 'evaluations': 0,
                      'nontrivial': False, 'by_format': {}, 'by_schedule': {},
                      'pending_bytes_at_ack': 0, 'rewrites': 0, 'stub_reads': 0,
                      'other_property': {}, 'ack_shorter_than_final': 0,
                      'known_hits': {}}


def start(world, config):
    return State(world, config)


def gen_op(rng, st):
    c = st.c
    if st.queue:
        return st.queue.pop(0)
    if st.cycle >= c['cycles']:
        if st.cycle == c['cycles']:
            st.cycle += 1
            return {'op': 'final'}
        return None
    st.cycle += 1
    cid = st.gcid
    st.gcid += 1
    fmt = rng.choice(c['formats'])
    spec = gen_spec(rng, fmt)
    ops = []
    for _ in range(rng.randrange(0, 2)):
        ops.append(_hist(rng))
    ops.append({'op': 'write', 'cid': cid, 'spec': spec, 'file': 'w%d.%s' % (cid, fmt)})
    if rng.random() < 0.35:
        # history: another file of the same layout (same grid and counts, species
        # permuted, other start hour) is written and read in between
        sib = dict(spec)
        if 'species' in sib:
            sp = list(sib['species'])
            rng.shuffle(sp)
            if len(sp) > 1 and sp == sib['species']:
                sp = sp[1:] + sp[:1]
            sib['species'] = sp
        sib['stime'] = float(rng.choice([0, 3, 7]))
        sib['sdate'] = 2002154
        ops.append({'op': 'sibling', 'spec': sib, 'file': 'sib%d.%s' % (cid, fmt),
                    'order': rng.choice(['before', 'after'])})
    ops.append({'op': 'judge', 'cid': cid, 'which': 'ack'})
    sched = rng.choice(SCHEDULES)
    ops.append({'op': 'handle', 'cid': cid, 'do': sched})
    if sched != 'retain':
        ops.append({'op': 'judge', 'cid': cid, 'which': 'path'})
    for _ in range(rng.randrange(0, 3)):
        ops.append(_hist(rng))
    if rng.random() < 0.3:
        ofmt = rng.choice(FORMATS)
        ops.append({'op': 'unrelated_write', 'spec': gen_spec(rng, ofmt),
                    'file': 'u%d.%s' % (cid, ofmt)})
    rw = {'op': 'rewrite', 'cid': cid, 'from': rng.choice(['ack', 'path'])}
    if rng.random() < 0.3:
        # between reading the file back and writing it again, another file of the
        # same format but another grid is opened (named format) or probed (no format)
        rw['between'] = {'spec': gen_spec(rng, fmt), 'how': rng.choice(['open', 'probe', 'open'])}
    ops.append(rw)
    ops.append({'op': 'stubread', 'cid': cid, 'hdr_nz0': rng.random() < 0.5,
                'little_endian': rng.random() < 0.4})
    st.queue = ops
    return st.queue.pop(0)


def _hist(rng):
    return rng.choice([{'op': 'clock_jump', 'seconds': rng.choice([1, 3600, 86400, 31622400, -7200])},
                       {'op': 'collect'}])


def _ref_encode(fmt, m):
    if fmt == 'uamiv':
        return camx.encode_gridded(m)[0]
    if fmt == 'lateral_boundary':
        return camx.encode_boundary(m)[0]
    if fmt == 'landuse':
        return camx.encode_landuse(m)[0]
    if fmt == 'cloud_rain':
        return camx.encode_cloud_rain(m)[0]
    return camx.encode_met(m)[0]


def _raise(st, prop, invariant, detail, sig):
    """violations are attributed to the property whose oracle found them; a
    check run for one property only counts the other's"""
    if st.focus in (None, prop):
        full = dict(sig, property=prop, invariant=invariant)
        kn = st.w.known_match(full)
        if kn is not None:
            kh = st.stats['known_hits'].setdefault(kn, {'n': 0, 'example': None})
            kh['n'] += 1
            if kh['example'] is None:
                kh['example'] = detail[:300]
            return
        raise Violation(invariant, detail, sig=dict(sig, property=prop))
    k = '%s:%s' % (prop, invariant)
    st.stats['other_property'][k] = st.stats['other_property'].get(k, 0) + 1


def _judge_image(st, wr, path, which):
    fmt = wr['fmt']
    spec = wr['spec']
    truth = wr['truth']
    st.stats['images_checked'] += 1
    st.stats['evaluations'] += 1
    with open(path, 'rb') as fh:
        buf = fh.read()
    # ---- C09 (a): library writer -> record walker + reference decoder
    try:
        ref = canon_from_reference(buf, fmt, spec)
        d = compare(truth, ref, 'reference decoder on the %s image' % which)
        if d:
            _raise(st, 'C09', 'written-file-decodes-differently',
                   '%s file (%s): %s' % (fmt, _desc(spec), '; '.join(x[1] for x in d[:3])),
                   {'format': fmt, 'field': d[0][0], 'dir': 'lib-writer->ref-decoder'})
    except (RecordError, ValueError, IndexError, KeyError) as e:
        if isinstance(e, Violation):
            raise
        _raise(st, 'C09', 'written-file-violates-layout',
               '%s file (%s), %s image of %d bytes: %s: %s' % (
                   fmt, _desc(spec), which, len(buf), type(e).__name__, e),
               {'format': fmt, 'error': type(e).__name__})
    # ---- C08: library writer -> library reader
    try:
        g = library_read(path, fmt, spec)
        got = canon_from_library(g, fmt)
    except Violation:
        raise
    except BaseException as e:
        _raise(st, 'C08', 'written-file-does-not-read-back',
               '%s file (%s), %s image (handle %s): %s: %s' % (
                   fmt, _desc(spec), which, wr['life'], type(e).__name__, e),
               {'format': fmt, 'error': type(e).__name__,
                'one_cell_grid': spec['nx'] * spec['ny'] == 1})
        return
    d = compare(truth, got, 'library reader on the %s image' % which)
    if d:
        sig = {'format': fmt, 'field': d[0][0]}
        if d[0][0] in ('etflag', 'tflag', 'header'):
            sig['source_has_etflag'] = bool(spec.get('etflag_in_source', True))
            sig['ends_in_next_year'] = truth['etflag'] is not None and \
                truth['etflag'][-1][0] // 1000 != truth['tflag'][0][0] // 1000
        _raise(st, 'C08', 'round-trip-differs',
               '%s file (%s, handle %s%s): %s' % (
                   fmt, _desc(spec), wr['life'],
                   '' if spec.get('etflag_in_source', True) else ', source without ETFLAG',
                   '; '.join(x[1] for x in d[:3])), sig)


def _desc(spec):
    return 'nx=%d ny=%d nz=%d nt=%d start %d %02d:00%s' % (
        spec['nx'], spec['ny'], spec['nz'], spec['nt'], spec['sdate'], int(spec['stime']),
        (' species ' + ','.join(spec['species'])) if 'species' in spec else '')


def apply(st, op):
    w = st.w
    o = op['op']
    obs = {}
    if o == 'clock_jump':
        seams.CLOCK.jump(op['seconds'])
        w.fault('clock_jump')
    elif o == 'collect':
        seams.GC.collect(2)
        w.fault('gc_between')
    elif o in ('write', 'unrelated_write'):
        spec = op['spec']
        fmt = spec['fmt']
        try:
            truth = truth_of(spec)
            if spec.get('window') and o == 'write':
                f = windowed_source(spec, truth)
                w.probe('source_is_a_window_of_a_larger_file')
            else:
                f = build_source(spec, truth)
            from .core import snapshot as _snap
            before = _snap.snap_file(f)
        except BaseException as e:
            raise HarnessError('cannot build source %r: %r' % (spec, e))
        path = w.path(op['file'])
        if spec.get('stale_output') and o == 'write' and fmt != 'landuse':
            # an older, longer export already sits at the output path
            old = dict(spec, nt=spec['nt'] + 2, window=False, layout='C')
            try:
                ot = truth_of(old)
                ho = library_write(build_source(old, ot), path, fmt, old)
                ho.close()
                w.fault('output_path_holds_older_longer_file')
            except BaseException:
                pass
        try:
            h = library_write(f, path, fmt, spec)
        except BaseException as e:
            if o == 'unrelated_write':
                return {'note': 'raised ' + type(e).__name__}
            _raise(st, 'C08', 'writer-raised',
                   'writing a %s file (%s) raised %s: %s' % (fmt, _desc(spec),
                                                             type(e).__name__, e),
                   {'format': fmt, 'error': type(e).__name__})
            return {'note': 'raised ' + type(e).__name__}
        if o == 'unrelated_write':
            st.wr.setdefault('unrelated', []).append(h)
            return {'note': 'ok'}
        ack = path + '.ack'
        shutil.copyfile(path, ack)
        w.fault('crash_at_ack_image')
        # writing is a query on the source: read(write(f)) is compared with f,
        # so f itself must still be what it was
        dsrc = _snap.diff(before, _snap.snap_file(f))
        if dsrc:
            _raise(st, 'C08', 'writer-modified-source',
                   'writing a %s file (%s) changed the source file object: %s' % (
                       fmt, _desc(spec), '; '.join(dsrc[:3])),
                   {'format': fmt})
        st.stats['writes'] += 1
        st.stats['by_format'][fmt] = st.stats['by_format'].get(fmt, 0) + 1
        st.wr[op['cid']] = {'path': path, 'ack': ack, 'handle': h, 'fmt': fmt, 'spec': spec,
                            'truth': truth, 'life': 'retained',
                            'size_ack': os.path.getsize(ack)}
        obs['size'] = st.wr[op['cid']]['size_ack']
    elif o == 'sibling':
        spec = op['spec']
        fmt = spec['fmt']
        try:
            truth = truth_of(spec)
            f = build_source(spec, truth)
        except BaseException as e:
            raise HarnessError('cannot build sibling source: %r' % (e,))
        path = w.path(op['file'])
        try:
            h = library_write(f, path, fmt, spec)
            h.close()
            got = canon_from_library(library_read(path, fmt, spec), fmt)
        except BaseException as e:
            return {'note': 'sibling raised ' + type(e).__name__}
        w.fault('sibling_file_written_and_read')
        st.stats['evaluations'] += 1
        d = compare(truth, got, 'library reader on a second file of the same layout')
        if d:
            _raise(st, 'C08', 'round-trip-differs',
                   '%s file (%s) written and read after another file of the same layout: %s' % (
                       fmt, _desc(spec), '; '.join(x[1] for x in d[:3])),
                   {'format': fmt, 'field': d[0][0], 'second_file': True})
    elif o == 'judge':
        wr = st.wr.get(op['cid'])
        if wr is None:
            return {'note': 'noop'}
        if op['which'] == 'ack':
            _judge_image(st, wr, wr['ack'], 'ack')
        else:
            if wr['life'] == 'retained':
                return {'note': 'noop'}
            _judge_image(st, wr, wr['path'], 'path-' + wr['life'])
    elif o == 'handle':
        wr = st.wr.get(op['cid'])
        if wr is None or wr['handle'] is None:
            return {'note': 'noop'}
        do = op['do']
        st.stats['by_schedule'][do] = st.stats['by_schedule'].get(do, 0) + 1
        h = wr['handle']
        if do in ('close', 'close2'):
            try:
                h.close()
                if do == 'close2':
                    h.close()
            except BaseException as e:
                obs['note'] = 'close raised ' + type(e).__name__
            wr['life'] = 'closed'
            w.fault('close')
        elif do in ('drop', 'drop+collect'):
            wr['handle'] = None
            h = None
            wr['life'] = 'dropped'
            w.fault('drop_reference')
            if do == 'drop+collect':
                seams.GC.collect(2)
                wr['life'] = 'dropped+collected'
        st.stats['nontrivial'] = True
    elif o == 'rewrite':
        wr = st.wr.get(op['cid'])
        if wr is None:
            return {'note': 'noop'}
        fmt, spec = wr['fmt'], wr['spec']
        src = wr['ack'] if (op['from'] == 'ack' or wr['life'] == 'retained') else wr['path']
        st.stats['rewrites'] += 1
        st.stats['evaluations'] += 1
        try:
            g = library_read(src, fmt, spec)
            bt = op.get('between')
            if bt:
                try:
                    osp = bt['spec']
                    ob = _ref_encode(fmt, truth_of(osp)['model'])
                    op3 = wr['path'] + '.other'
                    with open(op3, 'wb') as fh:
                        fh.write(ob)
                    if bt['how'] == 'probe':
                        import PseudoNetCDF as pnc
                        st.wr.setdefault('unrelated', []).append(pnc.pncopen(op3))
                    else:
                        st.wr.setdefault('unrelated', []).append(library_read(op3, fmt, osp))
                    w.fault('other_file_opened_between_read_and_rewrite')
                except BaseException as e:
                    obs['between'] = 'raised ' + type(e).__name__
            p2 = wr['path'] + '.rewrite'
            h2 = library_write(g, p2, fmt, spec)
        except BaseException as e:
            _raise(st, 'C08', 'rewrite-raised',
                   're-writing the re-read %s file (%s) raised %s: %s' % (
                       fmt, _desc(spec), type(e).__name__, e),
                   {'format': fmt, 'error': type(e).__name__,
                    'one_cell_grid': spec['nx'] * spec['ny'] == 1})
            return {'note': 'raised'}
        with open(p2, 'rb') as fh:
            b2_ack = fh.read()
        try:
            h2.close()
        except BaseException:
            pass
        with open(p2, 'rb') as fh:
            b2 = fh.read()
        with open(src, 'rb') as fh:
            b1 = fh.read()
        if b2_ack != b2:
            st.stats['ack_shorter_than_final'] += 1
        if b1 != b2_ack:
            n = min(len(b1), len(b2_ack))
            first = next((i for i in range(n) if b1[i] != b2_ack[i]), n)
            _raise(st, 'C08', 'rewrite-not-byte-identical',
                   're-writing the re-read %s file (%s) gives %d bytes, first output %d bytes; '
                   'first difference at byte %d' % (fmt, _desc(spec), len(b2_ack), len(b1), first),
                   {'format': fmt})
        if b2 != b1:
            # every file a writer emits must conform to the layout and decode to what
            # was written: the re-written file is judged like the first output
            _judge_image(st, wr, p2, 'rewrite')
    elif o == 'stubread':
        wr = st.wr.get(op['cid'])
        if wr is None:
            return {'note': 'noop'}
        fmt, spec, truth = wr['fmt'], wr['spec'], wr['truth']
        # ---- C09 (b): reference encoder -> library reader
        m = truth['model']
        if fmt == 'uamiv' and op.get('hdr_nz0') and m['nz'] == 1:
            # a surface file whose grid header says 0 layers (older producers)
            m = dict(m, hdr_nz=0)
            w.probe('gridded_header_with_zero_layers')
        buf = _ref_encode(fmt, m)
        p3 = wr['path'] + '.stub'
        with open(p3, 'wb') as fh:
            fh.write(buf)
        st.stats['stub_reads'] += 1
        st.stats['evaluations'] += 1
        try:
            g = library_read(p3, fmt, spec)
            got = canon_from_library(g, fmt)
        except BaseException as e:
            _raise(st, 'C09', 'reference-file-not-read',
                   'library reader on a reference-encoded %s file (%s): %s: %s' % (
                       fmt, _desc(spec), type(e).__name__, e),
                   {'format': fmt, 'error': type(e).__name__,
                    'one_cell_grid': spec['nx'] * spec['ny'] == 1})
            return {'note': 'raised'}
        d = compare(truth, got, 'library reader on the reference-encoded file')
        if d:
            _raise(st, 'C09', 'reference-file-read-differently',
                   '%s file (%s): %s' % (fmt, _desc(spec), '; '.join(x[1] for x in d[:3])),
                   {'format': fmt, 'field': d[0][0], 'dir': 'ref-encoder->lib-reader'})
        if fmt == 'uamiv' and op.get('little_endian'):
            # the same file as a little-endian machine writes it, read with endian='little'
            import PseudoNetCDF as pnc
            p5 = p3 + '.le'
            with open(p5, 'wb') as fh:
                fh.write(camx.gridded_to_little_endian(buf))
            w.probe('little_endian_reference_file')
            try:
                gl = canon_from_library(pnc.pncopen(p5, format='uamiv', endian='little'), fmt)
            except BaseException as e:
                _raise(st, 'C09', 'reference-file-not-read',
                       'library reader (endian=little) on a little-endian reference-encoded '
                       'uamiv file (%s): %s: %s' % (_desc(spec), type(e).__name__, e),
                       {'format': fmt, 'error': type(e).__name__, 'endian': 'little',
                        'one_cell_grid': spec['nx'] * spec['ny'] == 1})
                gl = None
            if gl is not None:
                d = compare(truth, gl, 'library reader (endian=little) on the little-endian '
                            'reference-encoded file')
                if d:
                    _raise(st, 'C09', 'reference-file-read-differently',
                           'uamiv file (%s): %s' % (_desc(spec), '; '.join(x[1] for x in d[:3])),
                           {'format': fmt, 'field': d[0][0], 'endian': 'little',
                            'dir': 'ref-encoder->lib-reader'})
        # what the library read from the reference file, written again by the library
        # writer, must conform to the layout and decode to the same content
        if op.get('rewrite_stub', True):
            p4 = p3 + '.rw'
            try:
                h4 = library_write(g, p4, fmt, spec)
                try:
                    h4.close()
                except BaseException:
                    pass
                with open(p4, 'rb') as fh:
                    b4 = fh.read()
            except BaseException as e:
                _raise(st, 'C08', 'rewrite-raised',
                       're-writing the library\'s reading of a reference-encoded %s file (%s) '
                       'raised %s: %s' % (fmt, _desc(spec), type(e).__name__, e),
                       {'format': fmt, 'error': type(e).__name__,
                        'one_cell_grid': spec['nx'] * spec['ny'] == 1})
                b4 = None
            if b4 is not None:
                st.stats['stub_rewrites'] = st.stats.get('stub_rewrites', 0) + 1
                try:
                    ref = canon_from_reference(b4, fmt, spec)
                    d = compare(truth, ref, 'reference decoder on the re-written reference file')
                    if d:
                        _raise(st, 'C09', 'written-file-decodes-differently',
                               '%s file (%s): %s' % (fmt, _desc(spec),
                                                     '; '.join(x[1] for x in d[:3])),
                               {'format': fmt, 'field': d[0][0],
                                'dir': 'ref-encoder->lib-reader->lib-writer->ref-decoder'})
                except (RecordError, ValueError, IndexError, KeyError) as e:
                    if isinstance(e, Violation):
                        raise
                    _raise(st, 'C09', 'written-file-violates-layout',
                           '%s file (%s), re-written reference file of %d bytes: %s: %s' % (
                               fmt, _desc(spec), len(b4), type(e).__name__, e),
                           {'format': fmt, 'error': type(e).__name__})
        # the library writer's bytes and the reference encoder's bytes: a probe
        with open(wr['ack'], 'rb') as fh:
            if fh.read() == buf:
                w.probe('library_bytes_equal_reference_bytes')
            else:
                w.probe('library_bytes_differ_from_reference_bytes')
    elif o == 'final':
        for h in st.wr.pop('unrelated', []):
            try:
                h.close()
            except BaseException:
                pass
        for cid in sorted(k for k in st.wr if isinstance(k, int)):
            wr = st.wr[cid]
            if wr['handle'] is not None:
                try:
                    wr['handle'].close()
                except BaseException:
                    pass
                wr['handle'] = None
        seams.GC.collect(2)
        for cid in sorted(k for k in st.wr if isinstance(k, int)):
            wr = st.wr[cid]
            wr['life'] = 'final'
            _judge_image(st, wr, wr['path'], 'path-final')
            fin = os.path.getsize(wr['path'])
            if fin != wr['size_ack']:
                st.stats['pending_bytes_at_ack'] += abs(fin - wr['size_ack'])
    else:
        raise HarnessError('unknown op %r' % (op,))
    spec = op.get('spec') or (st.wr.get(op.get('cid')) or {}).get('spec') or {}
    w.abstract(o, spec.get('fmt', '-'), op.get('do', '-'), op.get('which', op.get('from', '-')),
               ','.join(sorted(x['life'] for k, x in st.wr.items() if isinstance(k, int))))
    return obs


def finish(st):
    pass


def stats(st):
    return st.stats


def simplify_op(op):
    out = []
    if op.get('op') == 'write':
        sp = op['spec']
        for k, lo in (('nt', 1), ('nz', 1), ('nx', 1), ('ny', 1)):
            if sp[k] > lo:
                out.append(dict(op, spec=dict(sp, **{k: lo})))
                out.append(dict(op, spec=dict(sp, **{k: sp[k] - 1})))
        if sp.get('special'):
            out.append(dict(op, spec=dict(sp, special=False)))
        if 'species' in sp and len(sp['species']) > 1:
            out.append(dict(op, spec=dict(sp, species=sp['species'][:1])))
    return out
