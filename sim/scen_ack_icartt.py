"""C19 — ICARTT (FFI 1001) write/read round trip.

The ICARTT writer returns an open TEXT handle without a final flush, mixing
numpy's tofile (which writes through the descriptor) with print (which writes
through Python's buffer).  The simulator owns the durable image at the instant
the writer returns, the schedule of that handle, and the clock (the default
revision date comes from today()) across the two write/read cycles.  The stub
peer is the reference FFI-1001 decoder of sim.refcodec.icartt.
"""
import os
import shutil

import numpy as np

from .core import seams
from .core.world import Violation, HarnessError
from .refcodec import icartt

NAME = 'ack_icartt'
PROPERTIES = ['C19']

SCHEDULES = ['retain', 'close', 'drop', 'drop+collect']
MISSING = [-9999, -999, -99999, -8888, -7777777, -9999.0, 9999999, -999.99, 1e30, -1,
           9.96921e36, -9.99e35, 1e35, 1e20, -1e34, 9.969209968386869e36, -9.9999e33]
NAMES = ['O3_ppbv', 'NO2', 'CO_ppbv', 'Temp_K', 'Pressure', 'H2O_gkg', 'RH', 'WindSpeed_ms',
         'a', 'X1_y2_z3', 'NOy_pptv', 'JNO2']
UNITS = ['ppbv', 'K', 'hPa', 'm s-1', 'g/kg', '%', 'unitless', 'molec cm-3']
COMMENTS = ['PI_CONTACT_INFO', 'PLATFORM', 'LOCATION', 'ASSOCIATED_DATA', 'INSTRUMENT_INFO',
            'DATA_INFO', 'UNCERTAINTY', 'DM_CONTACT_INFO', 'PROJECT_INFO',
            'STIPULATIONS_ON_USE', 'OTHER_COMMENTS', 'REVISION']


def gen_config(rng, tier):
    return {'cycles': rng.randrange(1, 3) if tier == 'quick' else rng.randrange(1, 4),
            'clock': rng.choice(['steady', 'jumpy', 'jumpy']), 'max_steps': 200}


def gen_spec(rng):
    nrec = rng.choice([1, 1, 2, 3, 5, 8, 13, 20])
    if rng.random() < 0.03:
        # a long series (1 Hz data): block-wise output paths only run on sizes like this
        nrec = rng.choice([1000, 1001, 2049])
    nv = rng.randrange(1, 5)
    names = rng.sample(NAMES, nv)
    vars_ = []
    for n in names:
        vals = []
        for r in range(nrec):
            k = rng.randrange(8)
            if k == 0:
                x = 0.0
            elif k == 1:
                x = -rng.randrange(1, 10 ** 6) / 7.0
            elif k == 2:
                x = rng.randrange(1, 10 ** 7) * 10.0 ** rng.randrange(-30, 24)
            elif k == 3:
                x = float(rng.randrange(-1000, 1000))
            else:
                x = rng.randrange(1, 10 ** 6) / 997.0
            vals.append(x)
        holes = sorted(set(rng.randrange(nrec) for _ in range(rng.randrange(0, 3))))
        miss = rng.choice(MISSING)
        if rng.random() < 0.4:
            # genuine values right next to the missing code (distinct at %.6e)
            for _ in range(rng.randrange(1, 3)):
                vals[rng.randrange(nrec)] = float(miss) * (1.0 + rng.choice([-1, 1]) *
                                                          rng.choice([2e-6, 4e-6, 1e-5, 1e-4]))
        vars_.append({'name': n, 'units': rng.choice(UNITS), 'missing': miss,
                      'vals': vals, 'holes': holes})
        if rng.random() < 0.25:
            # a single-precision variable (what a netCDF-backed source delivers) whose
            # missing code is a float32 without an exact decimal form
            vars_[-1]['dtype'] = 'f'
            vars_[-1]['missing'] = rng.choice([-999.9, -9999.9, -99.99, -9999, -888.8])
    ncom = rng.randrange(0, 6)
    comments = {k: rng.choice(['see\x0cpage 2', 'left\x85right', 'a\u2028b', 'tab\there',
                               'nobody@example.org', 'NASA DC-8', 'R0', 'see header',
                               'value: with colon', 'x', '', '  ', 'N/A'])
                for k in rng.sample(COMMENTS, ncom)}
    if rng.random() < 0.2:
        # detection-limit comments: a flag and one value, one value per dependent
        # variable, or a list of another length (a column was dropped from a merge)
        for lod, flag in rng.sample([('LLOD', '-8888'), ('ULOD', '-7777')], rng.randrange(1, 3)):
            comments[lod + '_FLAG'] = flag
            comments[lod + '_VALUE'] = rng.choice(
                ['N/A', '0.5', ', '.join('%g' % (0.5 + i) for i in range(nv)),
                 ', '.join('%g' % (0.5 + i) for i in range(nv + 1)),
                 ', '.join('%g' % (0.5 + i) for i in range(max(2, nv - 1) if nv != 3 else 4))])
    t0 = rng.choice([0, 43200, 86399, 3600])
    return {'nrec': nrec, 'vars': vars_, 'comments': comments,
            'date': rng.choice(['2004, 07, 15', '1999, 12, 31', '2012, 02, 29']),
            'wdate': rng.choice([None, None, '2005, 01, 02']),
            'ivar': rng.choice(['Start_UTC', 'UTC', 'Time_Start']),
            'iunits': rng.choice(['seconds', 'seconds_past_midnight', 's']),
            'times': [float(t0 + 60 * r) for r in range(nrec)],
            'interval': rng.choice([0, 1, 60]),
            # the format puts the independent variable first; a source file need not
            'ivar_pos': rng.choice([0, 0, 0, 1, 2, 9]),
            # whole seconds are often stored as integers
            'ivar_dtype': rng.choice(['d', 'd', 'i', 'f']),
            'std_attrs': rng.random() < 0.8}


def build_source(spec):
    import PseudoNetCDF as pnc
    f = pnc.PseudoNetCDFFile()
    f.createDimension('POINTS', spec['nrec'])
    def mk_ivar():
        tv = f.createVariable(spec['ivar'], spec.get('ivar_dtype', 'd'), ('POINTS',))
        tv.units = spec['iunits']
        tv.standard_name = spec['ivar']
        tv[:] = np.array(spec['times'], dtype=spec.get('ivar_dtype', 'd'))

    def mk_dep(v):
        miss = v['missing']
        dt = v.get('dtype', 'd')
        if dt == 'f':
            miss = np.float32(miss)
        var = f.createVariable(v['name'], dt, ('POINTS',), missing_value=miss)
        var.units = v['units']
        var.standard_name = v['name']
        a = np.ma.masked_array(np.array(v['vals'], dtype=dt),
                               mask=np.zeros(spec['nrec'], dtype=bool))
        for h in v['holes']:
            a[h] = np.ma.masked
        # a value equal to the missing code is a missing value in this format
        a = np.ma.masked_where(np.ma.getdata(a) == miss, a)
        var[:] = a
    # creation order: the independent variable at position ivar_pos
    order = list(spec['vars'])
    order.insert(min(spec.get('ivar_pos', 0), len(order)), None)
    for v in order:
        if v is None:
            mk_ivar()
        else:
            mk_dep(v)
    if spec['std_attrs']:
        f.PI_NAME = 'Stub, P.I.'
        f.ORGANIZATION_NAME = 'Stub organisation'
        f.SOURCE_DESCRIPTION = 'stub instrument'
        f.MISSION_NAME = 'STUB 2004'
        f.VOLUME_INFO = '1, 1'
    f.SDATE = spec['date']
    if spec['wdate']:
        f.WDATE = spec['wdate']
    f.TIME_INTERVAL = spec['interval']
    f.INDEPENDENT_VARIABLE = spec['ivar']
    for k, x in spec['comments'].items():
        setattr(f, k, x)
    return f


def truth_of(spec):
    names = [spec['ivar']] + [v['name'] for v in spec['vars']]
    units = {spec['ivar']: spec['iunits']}
    missing = {}
    vals = {spec['ivar']: (np.array(spec['times'], dtype='d'), np.zeros(spec['nrec'], bool))}
    for v in spec['vars']:
        units[v['name']] = v['units']
        missing[v['name']] = v['missing']
        a = np.array(v['vals'], dtype='d')
        mv = v['missing']
        if v.get('dtype') == 'f':
            a = np.array(v['vals'], dtype='f').astype('d')
            mv = float(np.float32(v['missing']))
            missing[v['name']] = mv
        m = np.zeros(spec['nrec'], dtype=bool)
        for h in v['holes']:
            m[h] = True
        m |= (a == mv)
        vals[v['name']] = (a, m)
    return {'names': names, 'units': units, 'missing': missing, 'vals': vals,
            'f32': [v['name'] for v in spec['vars'] if v.get('dtype') == 'f']}


def canon_from_library(f):
    names = list(f.variables.keys())
    units, missing, vals = {}, {}, {}
    for k in names:
        v = f.variables[k]
        units[k] = getattr(v, 'units', None)
        missing[k] = getattr(v, 'missing_value', None)
        a = v[...]
        vals[k] = (np.array(np.ma.getdata(a), dtype='d'), np.array(np.ma.getmaskarray(a)))
    return {'names': names, 'units': units, 'missing': missing, 'vals': vals}


def close7(a, b):
    """equal to seven significant digits (%.6e)"""
    a = np.asarray(a, 'd')
    b = np.asarray(b, 'd')
    return np.all(np.abs(a - b) <= 1.0e-6 * np.maximum(np.abs(a), np.abs(b)))


def compare(truth, got, what, check_ivar_units=True):
    out = []
    if got['names'] != truth['names']:
        out.append(('names', '%s: variables %s, expected %s' % (what, got['names'], truth['names'])))
        return out
    for k in truth['names']:
        if k == truth['names'][0] and not check_ivar_units:
            pass
        elif (got['units'].get(k) or '').strip() != (truth['units'].get(k) or '').strip():
            out.append(('units', '%s: units of %s are %r, expected %r' % (
                what, k, got['units'].get(k), truth['units'].get(k))))
        if k in truth['missing']:
            g = got['missing'].get(k)
            try:
                same = float(g) == float(truth['missing'][k])
                if not same and k in truth.get('f32', ()):
                    # a single-precision code is written with its shortest decimal form
                    same = bool(close7(float(g), float(truth['missing'][k])))
            except Exception:
                same = False
            if not same:
                out.append(('missing-code', '%s: missing code of %s is %r, expected %r' % (
                    what, k, g, truth['missing'][k])))
        ta, tm = truth['vals'][k]
        ga, gm = got['vals'][k]
        if ga.shape != ta.shape:
            out.append(('records', '%s: %s has %s records, expected %s' % (
                what, k, ga.shape, ta.shape)))
            continue
        if not np.array_equal(gm, tm):
            out.append(('mask', '%s: mask of %s is %s, expected %s' % (
                what, k, np.nonzero(gm)[0].tolist(), np.nonzero(tm)[0].tolist())))
            continue
        ok = ~tm
        if ok.any() and not close7(ga[ok], ta[ok]):
            i = int(np.nonzero(np.abs(ga[ok] - ta[ok]) >
                               1e-6 * np.maximum(np.abs(ga[ok]), np.abs(ta[ok])))[0][0])
            out.append(('values', '%s: %s differs beyond 7 significant digits (%r vs %r)' % (
                what, k, float(ga[ok][i]), float(ta[ok][i]))))
    return out


class State(object):
    def __init__(self, world, config):
        self.w = world
        self.c = config
        self.cycle = 0
        self.queue = []
        self.wr = {}
        self.gcid = 0
        self.stats = {'writes': 0, 'images_checked': 0, 'evaluations': 0, 'nontrivial': False,
                      'by_schedule': {}, 'pending_bytes_at_ack': 0, 'second_cycles': 0,
                      'auto_opens': 0, 'ack_lacks_final_newline': 0, 'known_hits': {}}


def start(world, config):
    return State(world, config)


def gen_op(rng, st):
    c = st.c
    if st.queue:
        return st.queue.pop(0)
    if st.cycle >= c['cycles']:
        if st.cycle == c['cycles']:
            st.cycle += 1
            return {'op': 'final'}
        return None
    st.cycle += 1
    cid = st.gcid
    st.gcid += 1
    ops = []
    if rng.random() < 0.5:
        ops.append({'op': 'clock_jump', 'seconds': rng.choice([1, 86400, 31622400, -3600])})
    # (some suffixes are names of other readers: the content decides, not the name)
    suffix = rng.choice(['ffi1001', 'ict', 'ict', 'txt', '', 'csv', 'dat', 'wind', 'geos'])
    ops.append({'op': 'write', 'cid': cid, 'spec': gen_spec(rng),
                'file': ('w%d.%s' % (cid, suffix)) if suffix else 'w%d' % cid})
    ops.append({'op': 'judge', 'cid': cid, 'which': 'ack', 'how': rng.choice(['explicit', 'auto', 'auto', 'auto-pathlike'])})
    sched = rng.choice(SCHEDULES)
    ops.append({'op': 'handle', 'cid': cid, 'do': sched})
    if sched != 'retain':
        ops.append({'op': 'judge', 'cid': cid, 'which': 'path',
                    'how': rng.choice(['explicit', 'auto', 'auto', 'auto-pathlike'])})
    ops.append(rng.choice([{'op': 'clock_jump', 'seconds': rng.choice([43200, 86400, 31622400])},
                           {'op': 'collect'}]))
    ops.append({'op': 'second', 'cid': cid, 'from': rng.choice(['ack', 'path']),
                # the second output goes to a new path, or over the first output
                'to': rng.choice(['fresh', 'fresh', 'same']),
                # the user converts the time axis of the file just read (other unit,
                # scaled values) before writing it again
                'retime': rng.random() < 0.3})
    if rng.random() < 0.4:
        # a file produced by the stub peer (an instrument team): non-unit scale
        # factors, then library read -> write -> read
        nrec = rng.randrange(1, 8)
        nv = rng.randrange(1, 4)
        sv = []
        for n in rng.sample(NAMES, nv):
            miss = rng.choice([-9999, -999, -99999, -8888])
            raw = [rng.choice([miss, float(rng.randrange(-500, 5000)) / 4.0, 0.0,
                               rng.randrange(1, 10 ** 6) / 997.0]) for _ in range(nrec)]
            sv.append({'name': n, 'units': rng.choice(UNITS), 'missing': miss,
                       'scale': rng.choice([1, 1, 0.1, 10, 0.001, 2.5]), 'raw': raw})
        ops.append({'op': 'stub_cycle', 'cid': cid, 'nrec': nrec, 'vars': sv,
                    'file': 'stub%d.%s' % (cid, rng.choice(['ict', 'ffi1001'])),
                    'how': rng.choice(['explicit', 'auto', 'auto', 'auto-pathlike'])})
    st.queue = ops
    return st.queue.pop(0)


def _open(path, how):
    import PseudoNetCDF as pnc
    if how == 'auto':
        return pnc.pncopen(path)
    if how == 'auto-pathlike':
        import pathlib
        return pnc.pncopen(pathlib.Path(path))
    return pnc.pncopen(path, format='ffi1001')


def _judge(st, wr, path, which, how):
    truth = wr['truth']
    st.stats['images_checked'] += 1
    st.stats['evaluations'] += 1
    with open(path, 'rb') as fh:
        buf = fh.read()
    nvars = len(truth['names']) - 1
    # declared header-line and variable counts equal the actual ones
    try:
        d = icartt.decode(buf)
    except Exception as e:
        raise Violation('header-counts-inconsistent',
                        '%s image (%d bytes) is not a consistent FFI 1001 file: %s: %s' % (
                            which, len(buf), type(e).__name__, e),
                        sig={'error': type(e).__name__})
    if d['n'] != nvars or d['columns'] != truth['names'] or len(d['rows']) != wr['spec']['nrec']:
        raise Violation('header-counts-inconsistent',
                        '%s image declares %d variables, columns %s, %d data rows; written were '
                        '%d variables %s, %d rows' % (which, d['n'], d['columns'], len(d['rows']),
                                                      nvars, truth['names'], wr['spec']['nrec']),
                        sig={'what': 'counts'})
    try:
        f = _open(path, how)
        if how.startswith('auto'):
            st.stats['auto_opens'] += 1
            if type(f).__name__ != 'ffi1001':
                raise Violation('auto-detected-as-other-format',
                                '%s image named %s opens as %s' % (
                                    which, os.path.basename(path), type(f).__name__),
                                sig={'cls': type(f).__name__})
        got = canon_from_library(f)
    except Violation:
        raise
    except BaseException as e:
        raise Violation('written-file-does-not-reopen',
                        '%s image (handle %s, opened %s): %s: %s' % (
                            which, wr['life'], how, type(e).__name__, e),
                        sig={'how': how, 'error': type(e).__name__})
    diff = compare(truth, got, '%s image opened %s' % (which, how))
    if diff:
        raise Violation('round-trip-differs',
                        '%d records, %d variables, handle %s: %s' % (
                            wr['spec']['nrec'], nvars, wr['life'],
                            '; '.join(x[1] for x in diff[:3])),
                        sig={'field': diff[0][0]})
    return got


def apply(st, op):
    w = st.w
    o = op['op']
    obs = {}
    if o == 'clock_jump':
        seams.CLOCK.jump(op['seconds'])
        w.fault('clock_jump')
    elif o == 'collect':
        seams.GC.collect(2)
        w.fault('gc_between')
    elif o == 'write':
        spec = op['spec']
        try:
            truth = truth_of(spec)
            f = build_source(spec)
        except BaseException as e:
            raise HarnessError('cannot build source: %r' % (e,))
        path = w.path(op['file'])
        from PseudoNetCDF.pncgen import pncgen
        try:
            h = pncgen(f, path, format='ffi1001', verbose=0)
        except BaseException as e:
            raise Violation('writer-raised', 'ncf2ffi1001 raised %s: %s' % (type(e).__name__, e),
                            sig={'error': type(e).__name__})
        ack = w.path('ack_' + op['file'])
        shutil.copyfile(path, ack)
        seams.stamp_file(path)
        seams.stamp_file(ack)
        w.fault('crash_at_ack_image')
        st.stats['writes'] += 1
        st.wr[op['cid']] = {'path': path, 'ack': ack, 'handle': h, 'spec': spec, 'truth': truth,
                            'life': 'retained', 'size_ack': os.path.getsize(ack)}
        with open(ack, 'rb') as fh:
            b = fh.read()
        if not b.endswith(b'\n'):
            st.stats['ack_lacks_final_newline'] += 1
            w.probe('ack_image_lacks_final_newline')
    elif o == 'judge':
        wr = st.wr.get(op['cid'])
        if wr is None:
            return {'note': 'noop'}
        if op['which'] == 'ack':
            _judge(st, wr, wr['ack'], 'ack', op['how'])
        elif wr['life'] != 'retained':
            _judge(st, wr, wr['path'], 'path-' + wr['life'], op['how'])
    elif o == 'handle':
        wr = st.wr.get(op['cid'])
        if wr is None or wr['handle'] is None:
            return {'note': 'noop'}
        do = op['do']
        st.stats['by_schedule'][do] = st.stats['by_schedule'].get(do, 0) + 1
        if do == 'close':
            try:
                wr['handle'].close()
            except BaseException as e:
                obs['note'] = 'close raised ' + type(e).__name__
            wr['life'] = 'closed'
            w.fault('close')
        elif do in ('drop', 'drop+collect'):
            wr['handle'] = None
            wr['life'] = 'dropped'
            w.fault('drop_reference')
            if do == 'drop+collect':
                seams.GC.collect(2)
                wr['life'] = 'dropped+collected'
        st.stats['nontrivial'] = True
    elif o == 'second':
        # second write/read cycle (after a clock jump / collection): no data change
        wr = st.wr.get(op['cid'])
        if wr is None:
            return {'note': 'noop'}
        src = wr['ack'] if (op['from'] == 'ack' or wr['life'] == 'retained') else wr['path']
        st.stats['second_cycles'] += 1
        st.stats['evaluations'] += 1
        from PseudoNetCDF.pncgen import pncgen
        try:
            g = _open(src, 'explicit')
            if op.get('retime'):
                tv = g.variables[g.INDEPENDENT_VARIABLE]
                tv.units = 'hours'
                # (kept to the seven digits the format stores, so that "a second
                # cycle changes no data" still applies literally)
                tv[:] = [float('%.6e' % (x / 3600.)) for x in np.asarray(tv[:], dtype='d')]
                w.probe('time_axis_converted_before_second_write')
            first = canon_from_library(g)
            same = op.get('to') == 'same' and wr['life'] != 'retained' and not op.get('retime')
            p2 = wr['path'] if same else w.path('second_%d.ffi1001' % op['cid'])
            h2 = pncgen(g, p2, format='ffi1001', verbose=0)
            a2 = p2 + '.ack'
            shutil.copyfile(p2, a2)
            seams.stamp_file(p2)
            seams.stamp_file(a2)
            g2 = _open(a2, 'explicit')
            second = canon_from_library(g2)
            try:
                h2.close()
            except BaseException:
                pass
            if same:
                # the first output's path now holds the second output (usually
                # with a longer header): it must re-open as what it now is
                w.probe('second_cycle_overwrote_first_output')
                seams.stamp_file(p2)
                g3 = _open(p2, op.get('from') == 'ack' and 'auto' or 'explicit')
                third = canon_from_library(g3)
                d3 = compare(second, third, 'first output path after being overwritten')
                if d3:
                    raise Violation('overwritten-output-reads-differently',
                                    '; '.join(x[1] for x in d3[:3]), sig={'field': d3[0][0]})
        except BaseException as e:
            raise Violation('second-cycle-raised', '%s: %s' % (type(e).__name__, e),
                            sig={'error': type(e).__name__})
        diff = compare(first, second, 'second write/read cycle')
        # "changes no data": after the first cycle values are already rounded
        for k in first['names']:
            fa, fm = first['vals'][k]
            sa, sm = second['vals'].get(k, (None, None))
            if sa is not None and sa.shape == fa.shape and np.array_equal(fm, sm):
                ok = ~fm
                if ok.any() and not np.array_equal(fa[ok], sa[ok]):
                    diff.append(('values', '%s changed in the second cycle' % k))
        if diff:
            raise Violation('second-cycle-changes-data', '; '.join(x[1] for x in diff[:3]),
                            sig={'field': diff[0][0]})
    elif o == 'stub_cycle':
        from PseudoNetCDF.pncgen import pncgen
        nrec = op['nrec']
        doc = {'date': (2004, 7, 15), 'rev': (2005, 1, 2), 'ivar': ('Start_UTC', 'seconds'),
               'vars': [(v['name'], v['units'], v['scale'], v['missing']) for v in op['vars']],
               'normal': ['PI_CONTACT_INFO: nobody@example.org', 'REVISION: R0'],
               'rows': [[43200 + 60 * r] + [v['raw'][r] for v in op['vars']] for r in range(nrec)]}
        path = w.path(op['file'])
        with open(path, 'wb') as fh:
            fh.write(icartt.encode(doc))
        names = ['Start_UTC'] + [v['name'] for v in op['vars']]
        truth = {'names': names, 'units': {'Start_UTC': 'seconds'}, 'missing': {},
                 'vals': {'Start_UTC': (np.array([43200. + 60 * r for r in range(nrec)]),
                                        np.zeros(nrec, bool))}}
        for v in op['vars']:
            raw = np.array(v['raw'], dtype='d')
            truth['units'][v['name']] = v['units']
            truth['missing'][v['name']] = v['missing']
            truth['vals'][v['name']] = (raw * v['scale'], raw == v['missing'])
        st.stats['evaluations'] += 1
        st.stats['stub_cycles'] = st.stats.get('stub_cycles', 0) + 1
        try:
            g = _open(path, op['how'])
            first = canon_from_library(g)
        except BaseException as e:
            raise Violation('reference-file-not-read', 'FFI-1001 file from the reference encoder: '
                            '%s: %s' % (type(e).__name__, e), sig={'error': type(e).__name__})
        d = compare(truth, first, 'library reader on a reference-encoded file (scale factors %s)'
                    % [v['scale'] for v in op['vars']])
        if d:
            raise Violation('reference-file-read-differently', '; '.join(x[1] for x in d[:3]),
                            sig={'field': d[0][0]})
        try:
            p2 = w.path('re_' + op['file'])
            h2 = pncgen(g, p2, format='ffi1001', verbose=0)
            a2 = w.path('reack_' + op['file'])
            shutil.copyfile(p2, a2)
            second = canon_from_library(_open(a2, 'explicit'))
            h2.close()
        except BaseException as e:
            raise Violation('second-cycle-raised', '%s: %s' % (type(e).__name__, e),
                            sig={'error': type(e).__name__})
        d = compare(truth, second, 'write/read cycle of a file read from the reference encoder '
                    '(scale factors %s)' % [v['scale'] for v in op['vars']])
        if d:
            raise Violation('round-trip-differs', '; '.join(x[1] for x in d[:3]),
                            sig={'field': d[0][0], 'source': 'reference-file'})
    elif o == 'final':
        for cid in sorted(st.wr):
            wr = st.wr[cid]
            if wr['handle'] is not None:
                try:
                    wr['handle'].close()
                except BaseException:
                    pass
                wr['handle'] = None
        seams.GC.collect(2)
        for cid in sorted(st.wr):
            wr = st.wr[cid]
            wr['life'] = 'final'
            _judge(st, wr, wr['path'], 'path-final', 'explicit')
            st.stats['pending_bytes_at_ack'] += abs(os.path.getsize(wr['path']) - wr['size_ack'])
    else:
        raise HarnessError('unknown op %r' % (op,))
    w.abstract(o, op.get('do', '-'), op.get('which', op.get('from', '-')), op.get('how', '-'),
               ','.join(sorted(x['life'] for x in st.wr.values())))
    return obs


def finish(st):
    pass


def stats(st):
    return st.stats


def simplify_op(op):
    out = []
    if op.get('op') == 'write':
        sp = op['spec']
        if len(sp['vars']) > 1:
            for i in range(len(sp['vars'])):
                out.append(dict(op, spec=dict(sp, vars=sp['vars'][:i] + sp['vars'][i + 1:])))
        if sp['comments']:
            out.append(dict(op, spec=dict(sp, comments={})))
        if sp['nrec'] > 1:
            n = sp['nrec'] - 1
            out.append(dict(op, spec=dict(
                sp, nrec=n, times=sp['times'][:n],
                vars=[dict(v, vals=v['vals'][:n], holes=[h for h in v['holes'] if h < n])
                      for v in sp['vars']])))
        for i, v in enumerate(sp['vars']):
            if v['holes']:
                out.append(dict(op, spec=dict(sp, vars=sp['vars'][:i] + [dict(v, holes=[])] +
                                              sp['vars'][i + 1:])))
    return out
