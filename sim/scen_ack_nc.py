"""C07 — saving to netCDF and reopening reproduces the file.

What the simulator owns here is what lies between the writer and the later
reader: the durable image at the instant save() returns (a byte copy taken
before anything else runs: what survives a process kill at the
acknowledgement), the schedule of the returned handle (retained / closed /
closed twice / dropped / dropped+collected), earlier saves in the same process
(class-level writer options, compression), clock jumps and collections, and
handle-id recycling between save handles and reopen handles.  Inputs are drawn
inside the fixed envelope of DESIGN.md section 5.0.
"""
import os
import shutil

import numpy as np

from .core import seams, snapshot
from .core.world import Violation, HarnessError

NAME = 'ack_nc'
PROPERTIES = ['C07']

FLAVOURS = ['NETCDF3_CLASSIC', 'NETCDF3_64BIT_OFFSET', 'NETCDF4_CLASSIC', 'NETCDF4']
SCHEDULES = ['retain', 'close', 'close2', 'drop', 'drop+collect']
DTYPES = ['i1', 'i2', 'i4', 'f4', 'f8', 'S1']


def gen_config(rng, tier):
    return {'cycles': rng.randrange(1, 4) if tier == 'quick' else rng.randrange(1, 6),
            'flavours': rng.sample(FLAVOURS, rng.randrange(1, 5)),
            'compress': rng.choice([0.0, 0.3, 0.6]),
            'big': 0.04 if rng.random() < 0.25 else 0.0,
            'clock': rng.choice(['steady', 'jumpy']),
            'max_steps': 200}


def gen_spec(rng, fmt='NETCDF4', big=0.0):
    """a source file inside the C07 envelope (classic flavours: the unlimited
    dimension, if any, is the leading one)"""
    nd = rng.randrange(0, 5)
    names = ['time', 'lev', 'lat', 'lon', 'nv'][:nd] if rng.random() < 0.7 else \
        rng.sample(['t', 'z', 'y', 'x', 'n', 'TSTEP', 'LAY'], nd)
    dims = []
    unl = None
    if nd and rng.random() < 0.6:
        # the HDF5-based flavours allow the record dimension at any position
        unl = rng.randrange(nd) if (fmt in ('NETCDF4', 'NETCDF4_CLASSIC') and
                                    rng.random() < 0.3) else 0
    unl2 = None
    if fmt == 'NETCDF4' and unl is not None and nd >= 2 and rng.random() < 0.35:
        unl2 = rng.choice([i for i in range(nd) if i != unl])   # NETCDF4: several unlimited
    for i, n in enumerate(names):
        dims.append([n, rng.randrange(1, 6), i == unl or i == unl2])
    if rng.random() < 0.5:
        dims.append(['strlen', rng.randrange(1, 6), False])
    attrs = {}
    for i in range(rng.randrange(0, 5)):
        k = rng.choice(['title', 'history', 'ival', 'fval', 'farr', 'iarr', 'Conventions',
                        'source', 'n_levels', 'scale', 'typecode', 'units', 'long_name'])
        attrs[k] = _gen_attr(rng, fmt)
    vars_ = []
    dl = {d[0]: d[1] for d in dims}
    base = 10.0
    nv = rng.randrange(1, 6)
    dn = [d[0] for d in dims if d[0] != 'strlen']
    for i in range(nv):
        dt = rng.choice(DTYPES)
        if dt == 'S1':
            vd = ([rng.choice(dn)] if dn and rng.random() < 0.6 else []) + \
                (['strlen'] if 'strlen' in dl else [])
            if not vd:
                dt = 'f4'
        if dt != 'S1':
            k = rng.randrange(0, len(dn) + 1)
            pick = set(rng.sample(dn, k)) if k else set()
            vd = [d for d in dn if d in pick]
            # an unlimited dimension must come first in classic formats
        n = int(np.prod([dl[d] for d in vd])) if vd else 1
        v = {'name': 'V%d' % i if rng.random() < 0.7 else rng.choice(
            ['O3', 'temp', 'pres', 'u-wind', 'NO2_ppb', 'x1']) + str(i),
            'dt': dt, 'dims': vd, 'base': base, 'attrs': {}}
        base += 1000.
        for j in range(rng.randrange(0, 4)):
            # (CF range attributes whose type is not the variable's are attributes
            # like any other: names and VALUES come back)
            k = rng.choice(['units', 'long_name', 'scale', 'valid', 'flag', 'arr', 'variables',
                            'title', 'history', 'actual_range'])
            v['attrs'][k] = _gen_attr(rng, fmt)
        if dt in ('f4', 'f8') and rng.random() < 0.15:
            # non-finite numbers are data like any other (unmasked: bit-identical)
            v['nonfinite'] = [[rng.randrange(0, 50), rng.choice(['nan', 'inf', '-inf'])]
                              for _ in range(rng.randrange(1, 3))]
        if dt in ('f4', 'f8') and not v.get('nonfinite') and rng.random() < 0.15:
            # CF range attributes stored with another type than the variable's, wide
            # enough to hold every value (netCDF4 masks data outside the range when
            # reading, which is the convention's meaning and not the subject here)
            ot = 'f8' if dt == 'f4' else 'f4'
            for k in rng.sample(['valid_min', 'valid_max', 'valid_range'], rng.randrange(1, 3)):
                v['attrs'][k] = {'valid_min': {'t': ot, 'v': -273.15},
                                 'valid_max': {'t': ot, 'v': 6.02e23},
                                 'valid_range': {'t': ot + 'a', 'v': [-273.15, 6.02e23]}}[k]
        if dt in ('f4', 'f8') and rng.random() < 0.12:
            # a descriptive attribute that some writers also understand as a knob
            v['attrs']['least_significant_digit'] = {'t': 'i4', 'v': rng.choice([1, 2, 3])}
        if dt != 'S1' and rng.random() < 0.35 and n > 0:
            v['mask'] = sorted(set(rng.randrange(n) for _ in range(rng.randrange(0, 4))))
            # 'none': a masked array handed over as values without a fill keyword
            # (the fill value is then the masked array's own)
            v['fillkind'] = rng.choice(['fill_value', 'fill_value', 'missing_value', 'none'])
            if dt in ('f4', 'f8'):
                v['fill'] = rng.choice([-999.0, -9999.0, 1e20, 9.96921e36, -1.5, 0.0])
            elif dt == 'i1':
                v['fill'] = rng.choice([-99, -128, 127, 0])
            elif dt == 'i2':
                v['fill'] = rng.choice([-999, -32768, 9999, 0])
            else:
                v['fill'] = rng.choice([-999, -2147483647, 99999, 0])
        vars_.append(v)
    if rng.random() < big:
        # one large variable (a little over 2**21 values, leading length not a
        # round number): chunked/slab code paths only run on sizes like this
        lead = rng.choice([301, 257, 523])
        dims.append(['bigrec', lead, False])
        dims.append(['bigcol', 7001, False])
        v = {'name': 'BIG', 'dt': rng.choice(['f4', 'f4', 'i2']), 'dims': ['bigrec', 'bigcol'],
             'base': 5.0, 'attrs': {}}
        if rng.random() < 0.5:
            v['mask'] = [3, 7001 * (lead - 1) + 5]
            v['fillkind'] = 'fill_value'
            v['fill'] = -999.0 if v['dt'] == 'f4' else -999
        vars_.append(v)
    # an unlimited dimension has the length of the records written into it:
    # representable only if some variable uses it
    for name, n, u in dims:
        if u and not any(name in v['dims'] for v in vars_):
            for v in vars_:
                if v['dt'] != 'S1':
                    v['dims'] = [name] + [d for d in v['dims']]
                    v.pop('mask', None)
                    v.pop('fill', None)
                    v.pop('fillkind', None)
                    break
            else:
                for d in dims:
                    d[2] = False
    if rng.random() < 0.3:
        # declaration order is the file's, not the variables': the record
        # dimension need not be the first one declared (only the leading one
        # of each variable that uses it)
        rng.shuffle(dims)
    return {'dims': dims, 'attrs': attrs, 'vars': vars_}


def _gen_attr(rng, fmt=None):
    if rng.random() < 0.2:
        # integer attributes of other widths: int16 exists in every flavour, 64-bit
        # and unsigned ones only in NETCDF4 (values beyond the int32 range, so that a
        # writer that narrows them is seen in the value as well as in the type)
        if fmt == 'NETCDF4':
            t = rng.choice(['i8', 'i8a', 'u2', 'u8', 'i2'])
        else:
            t = 'i2'
        return {'t': t, 'v': {'i8': 2 ** 40 + rng.randrange(1000), 'u2': 65000 + rng.randrange(500),
                              'i8a': [2 ** 40 + rng.randrange(1000), -rng.randrange(1, 9), 3],
                              'u8': 2 ** 63 + rng.randrange(1000), 'i2': -rng.randrange(1, 30000)}[t]}
    k = rng.randrange(6)
    if k == 0:
        return {'t': 'str', 'v': rng.choice(['ppb', 'a longer attribute value, with commas',
                                             'K', 'degrees_north', 'x', 'CF-1.6',
                                             '\u00b5g/m\u00b3', '\u00b0C',
                                             'Universit\u00e9 de Gen\u00e8ve', '\u03bcmol'])}
    if k == 1:
        return {'t': 'i4', 'v': rng.randrange(-1000, 1000)}
    if k == 2:
        return {'t': 'f8', 'v': rng.choice([0.5, -273.15, 1e-30, 6.02e23, 0.1])}
    if k == 3:
        return {'t': 'f4a', 'v': [rng.randrange(-50, 50) / 4. for _ in range(rng.randrange(2, 5))]}
    if k == 4:
        return {'t': 'i4a', 'v': [rng.randrange(-50, 50) for _ in range(rng.randrange(2, 5))]}
    return {'t': 'f4', 'v': rng.randrange(-50, 50) / 8.}


def _attr(x):
    t = x['t']
    if t == 'str':
        return x['v']
    if t == 'i4':
        return np.int32(x['v'])
    if t == 'f8':
        return np.float64(x['v'])
    if t == 'f4':
        return np.float32(x['v'])
    if t == 'f4a':
        return np.array(x['v'], dtype='f4')
    if t == 'f8a':
        return np.array(x['v'], dtype='f8')
    if t == 'i4a':
        return np.array(x['v'], dtype='i4')
    if t in ('i8', 'u2', 'u8', 'i2'):
        return np.dtype(t).type(x['v'])
    if t == 'i8a':
        return np.array(x['v'], dtype='i8')
    raise HarnessError(t)


def _values(v, shape):
    n = int(np.prod(shape)) if len(shape) else 1
    dt = v['dt']
    if dt == 'S1':
        s = ('abcdefghijklmnopqrstuvwxyz' * (n // 26 + 1))[:n]
        return np.array(list(s), dtype='S1').reshape(shape)
    if dt in ('f4', 'f8'):
        a = v['base'] + 0.37 * np.arange(n, dtype='f8')
        a = a.astype(dt)
        if n > 2:
            a[1] = np.finfo(a.dtype).tiny / 4      # denormal
            a[2] = -0.0
        for i, what in v.get('nonfinite', []):
            if n:
                a[i % n] = float(what)
    elif dt == 'i1':
        a = ((np.arange(n) * 7) % 200 - 100).astype('i1')
    elif dt == 'i2':
        a = (np.arange(n) * 113 % 60000 - 30000).astype('i2')
    else:
        a = (int(v['base']) * 1000 + np.arange(n) * 7919).astype('i4')
    return a.reshape(shape)


def build_source(spec):
    import PseudoNetCDF as pnc
    f = pnc.PseudoNetCDFFile()
    for name, n, unl in spec['dims']:
        d = f.createDimension(name, n)
        if unl:
            d.setunlimited(True)
    for k, x in spec['attrs'].items():
        setattr(f, k, _attr(x))
    dl = {d[0]: d[1] for d in spec['dims']}
    for v in spec['vars']:
        shape = tuple(dl[d] for d in v['dims'])
        a = _values(v, shape)
        kw = {}
        tc = 'c' if v['dt'] == 'S1' else np.dtype(v['dt']).char
        if v.get('mask') is not None:
            fill = np.dtype(v['dt']).type(v['fill'])
            m = np.zeros(a.shape, dtype=bool)
            fl = m.reshape(-1)
            for i in v['mask']:
                fl[i % max(1, fl.size)] = True
            # a cell that happens to hold the fill value is indistinguishable
            # from a masked one on disk (netCDF's encoding): not representable
            # unmasked, so it is masked in the source as well
            m |= (a == np.dtype(v['dt']).type(v['fill']))
            a = np.ma.masked_array(a, mask=m)
            if v['fillkind'] == 'none':
                a.fill_value = fill
                kw['values'] = a
            else:
                kw[v['fillkind']] = fill
        var = f.createVariable(v['name'], tc, tuple(v['dims']), **kw)
        for k, x in v['attrs'].items():
            setattr(var, k, _attr(x))
        if 'values' not in kw:
            var[...] = a
    return f


def lazy_source(base, fault_at):
    """the same content presented the way the disk readers present theirs:
    variables produced by a loader on every request; request number fault_at
    fails once with EIO"""
    import PseudoNetCDF as pnc
    from PseudoNetCDF.core._files import PseudoNetCDFVariables
    lz = pnc.PseudoNetCDFFile()
    for dk, dv in base.dimensions.items():
        d = lz.createDimension(dk, len(dv))
        if dv.isunlimited():
            d.setunlimited(True)
    for k in base.ncattrs():
        setattr(lz, k, getattr(base, k))
    state = {'n': 0, 'fired': 0}

    def load(k):
        i = state['n']
        state['n'] += 1
        if fault_at is not None and i == fault_at:
            state['fired'] += 1
            raise IOError(5, 'injected read fault (request %d: %s)' % (i, k))
        return base.variables[k]
    lz.variables = PseudoNetCDFVariables(load, list(base.variables.keys()))
    return lz, state


# ---------------------------------------------------------------------------
class State(object):
    def __init__(self, world, config):
        self.w = world
        self.c = config
        self.cycle = 0
        self.queue = []
        self.saves = {}       # cid -> dict(path, ack, handle, spec, src(model), life)
        self.gcid = 0
        self.kwds0 = None
        self.stats = {'saves': 0, 'images_checked': 0, 'evaluations': 0,
                      'nontrivial': False, 'by_flavour': {}, 'by_schedule': {},
                      'pending_bytes_at_ack': 0, 'ack_differs_from_final': 0,
                      'class_kwds_drift': 0, 'save_raised': {}, 'masked_vars': 0,
                      'compressed': 0, 'recycled_ids': 0}
        self.ids = set()


def start(world, config):
    st = State(world, config)
    from PseudoNetCDF.pncgen import Pseudo2NetCDF
    st.kwds0 = dict(Pseudo2NetCDF.create_variable_kwds or {})
    return st


def gen_op(rng, st):
    c = st.c
    if st.queue:
        return st.queue.pop(0)
    if st.cycle >= c['cycles']:
        if st.cycle == c['cycles']:
            st.cycle += 1
            return {'op': 'final'}
        return None
    st.cycle += 1
    cid = st.gcid
    st.gcid += 1
    ops = []
    # history between cycles
    for _ in range(rng.randrange(0, 3)):
        ops.append(rng.choice([{'op': 'clock_jump', 'seconds': rng.choice([1, 86400, -3600, 31622400])},
                               {'op': 'collect'}]))
    if rng.random() < 0.25:
        # history: someone saved a file this flavour cannot fully represent
        # (unsigned / 64-bit attributes in a classic flavour, an object attribute);
        # that save may warn or raise - it is not judged - but later saves must
        # be unaffected by it
        ops.append({'op': 'odd_save', 'file': 'odd%d.nc' % cid,
                    'fmt': rng.choice(['NETCDF3_CLASSIC', 'NETCDF4_CLASSIC', 'NETCDF3_64BIT_OFFSET']),
                    'names': rng.sample(['title', 'history', 'ival', 'fval', 'farr', 'iarr',
                                         'units', 'long_name', 'scale', 'valid', 'flag', 'arr',
                                         'Conventions', 'source', 'n_levels'], 4),
                    'kind': rng.choice(['u2', 'u8', 'i8', 'obj'])})
    fmt = rng.choice(c['flavours'])
    cl = rng.choice([1, 4, 9]) if rng.random() < c['compress'] else 0
    ops.append({'op': 'save', 'cid': cid, 'spec': gen_spec(rng, fmt, c.get('big', 0.0)), 'fmt': fmt,
                'complevel': cl, 'file': 's%d.nc' % cid,
                # the file handed to save(): the in-memory file itself, or the same
                # content as a disk-backed file (written, closed, reopened)
                'source': rng.choice(['mem', 'mem', 'mem', 'disk', 'lazy', 'wrap', 'wrap-disk']),
                # lazily loaded sources: the n-th variable request fails once with
                # an I/O error (None / beyond the last request: no fault)
                'fault_at': rng.choice([None, rng.randrange(0, 14)])})
    ops.append({'op': 'read', 'cid': cid, 'which': 'ack',
                'how': rng.choice(['explicit', 'explicit', 'auto'])})
    sched = rng.choice(SCHEDULES)
    ops.append({'op': 'handle', 'cid': cid, 'do': sched})
    if rng.random() < 0.5:
        ops.append({'op': 'collect'})
    if sched != 'retain':
        ops.append({'op': 'read', 'cid': cid, 'which': 'path',
                    'how': rng.choice(['explicit', 'auto']),
                    'keep': rng.random() < 0.4})
    st.queue = ops
    return st.queue.pop(0)


# ---------------------------------------------------------------------------
def _norm_attr(c):
    """1-element arrays and scalars are the same thing on disk"""
    if c[0] == 'np':
        return ('arr', c[1], (1,), c[2])
    if c[0] == 'arr' and c[2] == ():
        return ('arr', c[1], (1,), c[3])
    return c


def compare(src, got, fmt):
    """list of differences between the source snapshot and the reopened one"""
    out = []
    if src['dims'] != got['dims']:
        out.append(('dims', 'dimensions %r -> %r' % (src['dims'], got['dims'])))
    sa = {k: _norm_attr(v) for k, v in src['attrs'].items()}
    ga = {k: _norm_attr(v) for k, v in got['attrs'].items()}
    if list(sa) and set(sa) != set(ga):
        out.append(('attr-names', 'global attributes %s -> %s' % (sorted(sa), sorted(ga))))
    for k in sa:
        if k in ga and sa[k] != ga[k]:
            out.append(('attr-value', 'global attribute %s: %r -> %r' % (k, sa[k], ga[k])))
    if src['order'] != got['order']:
        out.append(('var-order', 'variables %s -> %s' % (src['order'], got['order'])))
    for vk in src['order']:
        if vk not in got['vars']:
            continue
        x, y = src['vars'][vk], got['vars'][vk]
        if x['dtype'].lstrip('<>|=') != y['dtype'].lstrip('<>|='):
            out.append(('dtype', '%s dtype %s -> %s' % (vk, x['dtype'], y['dtype'])))
        if x['dims'] != y['dims']:
            out.append(('var-dims', '%s dims %s -> %s' % (vk, x['dims'], y['dims'])))
        if x['shape'] != y['shape']:
            out.append(('shape', '%s shape %s -> %s' % (vk, x['shape'], y['shape'])))
            continue
        if x['mask'] != y['mask']:
            xm = np.frombuffer(x['mask'], dtype=bool) if x['mask'] else None
            ym = np.frombuffer(y['mask'], dtype=bool) if y['mask'] else None
            out.append(('mask', '%s mask %s -> %s' % (
                vk, None if xm is None else np.nonzero(xm)[0].tolist(),
                None if ym is None else np.nonzero(ym)[0].tolist())))
        elif x['data'] != y['data']:
            out.append(('data', '%s data differ%s' % (vk, snapshot._where(
                dict(x, dtype=np.dtype(x['dtype']).newbyteorder('=').str),
                dict(y, dtype=np.dtype(y['dtype']).newbyteorder('=').str)))))
        xa = {k: _norm_attr(v) for k, v in x['attrs'].items() if k != '_FillValue'}
        ya = {k: _norm_attr(v) for k, v in y['attrs'].items() if k != '_FillValue'}
        if '_FillValue' in y['attrs'] and x.get('nofill'):
            out.append(('varattr-names', '%s declares no fill value but comes back with '
                        '_FillValue=%r' % (vk, y['attrs']['_FillValue'])))
        if set(xa) != set(ya):
            out.append(('varattr-names', '%s attributes %s -> %s' % (vk, sorted(xa), sorted(ya))))
        for k in xa:
            if k in ya and xa[k] != ya[k]:
                out.append(('varattr-value', '%s attribute %s: %r -> %r' % (vk, k, xa[k], ya[k])))
    return out


def _reopen(st, path, how):
    import PseudoNetCDF as pnc
    if how == 'auto':
        return pnc.pncopen(path)
    return pnc.pncopen(path, format='netcdf')


def _check_image(st, s, path, which, how, keep):
    st.stats['images_checked'] += 1
    st.stats['evaluations'] += 1
    try:
        g = _reopen(st, path, how)
    except BaseException as e:
        raise Violation('saved-file-does-not-reopen',
                        '%s image of %s (%s, complevel %d, handle %s) does not open: %s: %s' % (
                            which, st.w.rel(s['path']), s['fmt'], s['complevel'],
                            s['life'], type(e).__name__, e),
                        sig={'which': which, 'error': type(e).__name__})
    gid = getattr(g, '_grpid', None)
    if gid in st.ids:
        st.stats['recycled_ids'] += 1
        st.w.probe('handle_id_recycled')
    st.ids.add(gid)
    try:
        got = snapshot.snap_file(g)
    except BaseException as e:
        raise Violation('saved-file-does-not-reopen',
                        '%s image of %s (%s) opens but can not be read: %s: %s' % (
                            which, st.w.rel(s['path']), s['fmt'], type(e).__name__, e),
                        sig={'which': which, 'error': type(e).__name__})
    d = compare(s['src'], got, s['fmt'])
    if keep:
        s.setdefault('readers', []).append(g)
    else:
        try:
            g.close()
        except BaseException:
            pass
    if d:
        raise Violation(
            'reopened-file-differs',
            '%s image of %s (%s, complevel %d, handle %s, opened %s): %s' % (
                which, st.w.rel(s['path']), s['fmt'], s['complevel'], s['life'], how,
                '; '.join(x[1] for x in d[:3])),
            sig={'field': d[0][0], 'which': which if which == 'ack' else 'path'})


def apply(st, op):
    w = st.w
    o = op['op']
    obs = {}
    if o == 'clock_jump':
        seams.CLOCK.jump(op['seconds'])
        w.fault('clock_jump')
    elif o == 'collect':
        seams.GC.collect(2)
        w.fault('gc_between')
        # readers kept open across a collection must stay readable (N1)
        for s in st.saves.values():
            for g in s.get('readers', []):
                try:
                    got = snapshot.snap_file(g)
                except BaseException as e:
                    raise Violation('reopened-handle-invalidated',
                                    'reader of %s became unreadable after collect: %s: %s' % (
                                        w.rel(s['path']), type(e).__name__, e),
                                    sig={'error': type(e).__name__})
                d = compare(s['src'], got, s['fmt'])
                if d:
                    raise Violation('reopened-file-differs', 'after collect: ' + d[0][1],
                                    sig={'field': d[0][0], 'which': 'path'})
    elif o == 'odd_save':
        import PseudoNetCDF as pnc
        g = pnc.PseudoNetCDFFile()
        g.createDimension('x', 2)
        v = g.createVariable('V', 'f', ('x',))
        v[:] = [1., 2.]
        val = {'u2': np.uint16(7), 'u8': np.array([1, 2], dtype='u8'),
               'i8': np.int64(2 ** 40), 'obj': {'a': 1}}[op['kind']]
        for i, n in enumerate(op['names']):
            try:
                if i % 2 == 0:
                    setattr(g, n, val)
                else:
                    setattr(v, n, val)
            except BaseException:
                pass
        try:
            h = g.save(w.path(op['file']), format=op['fmt'], verbose=0)
            try:
                h.close()
            except BaseException:
                pass
            obs['note'] = 'ok'
        except BaseException as e:
            obs['note'] = 'raised ' + type(e).__name__
        w.fault('history_out_of_envelope_save')
    elif o == 'save':
        try:
            f = build_source(op['spec'])
            src = snapshot.snap_file(f)
            for v in op['spec']['vars']:
                # a variable that is not of the masked kind declares no fill value
                src['vars'][v['name']]['nofill'] = v.get('mask') is None
        except BaseException as e:
            raise HarnessError('cannot build source: %r' % (e,))
        path = w.path(op['file'])
        if op.get('source') in ('disk', 'wrap-disk'):
            try:
                p0 = w.path('src_' + op['file'])
                h0 = f.save(p0, format='NETCDF4' if op['fmt'] == 'NETCDF4' else op['fmt'], verbose=0)
                h0.close()
                import PseudoNetCDF as pnc
                f = pnc.pncopen(p0, format='netcdf')
                st.keep = getattr(st, 'keep', []) + [f]
                w.probe('source_is_disk_backed')
            except BaseException as e:
                raise HarnessError('cannot make the disk-backed source: %r' % (e,))
        if op.get('source') in ('wrap', 'wrap-disk'):
            # the wrapper pncopen(..., addcf=True) returns: its variables / dimensions
            # mappings hand out one-shot iterators
            try:
                from PseudoNetCDF.core._wrapnc import WrapPNC
                f = WrapPNC(f)
                w.probe('source_is_wrapped')
            except BaseException as e:
                # (the wrapper's constructor reads global attributes with getattr and
                # fails on a disk file that has one named like netCDF4 internals:
                # not part of save; the unwrapped source is used)
                w.probe('source_wrapper_not_constructible')
        lazy = None
        if op.get('source') == 'lazy':
            f, lazy = lazy_source(f, op.get('fault_at'))
            w.probe('source_is_lazily_loaded')
        st.stats['saves'] += 1
        st.stats['by_flavour'][op['fmt']] = st.stats['by_flavour'].get(op['fmt'], 0) + 1
        st.stats['masked_vars'] += sum(1 for v in op['spec']['vars'] if v.get('mask') is not None)
        if op['complevel']:
            st.stats['compressed'] += 1
        try:
            try:
                h = f.save(path, format=op['fmt'], complevel=op['complevel'], verbose=0)
                if lazy is not None and lazy['fired']:
                    # the fault was not reported: the save is acknowledged and is
                    # judged like any other acknowledged save
                    w.fault('read_fault_during_save_unreported')
                    st.stats['faults_unreported'] = st.stats.get('faults_unreported', 0) + 1
            except BaseException as e:
                if lazy is None or not lazy['fired']:
                    raise
                # an injected read fault was reported to the caller: nothing was
                # acknowledged.  The caller retries (fault gone) to a new path.
                w.fault('read_fault_during_save_reported')
                st.stats['faults_reported'] = st.stats.get('faults_reported', 0) + 1
                obs['fault'] = 'reported %s' % type(e).__name__
                seams.GC.collect(2)
                path = w.path('retry_' + op['file'])
                h = f.save(path, format=op['fmt'], complevel=op['complevel'], verbose=0)
        except BaseException as e:
            k = '%s:%s' % (op['fmt'], type(e).__name__)
            st.stats['save_raised'][k] = st.stats['save_raised'].get(k, 0) + 1
            raise Violation('save-raised',
                            'save(%s, complevel=%d) of an in-envelope file raised %s: %s' % (
                                op['fmt'], op['complevel'], type(e).__name__, e),
                            sig={'error': type(e).__name__})
        # crash-at-acknowledgement: what is on disk NOW, before anything else
        ack = path + '.ack'
        shutil.copyfile(path, ack)
        w.fault('crash_at_ack_image')
        # the source must not have been changed by saving (cheap, also C05)
        st.saves[op['cid']] = {'path': path, 'ack': ack, 'handle': h, 'fmt': op['fmt'],
                               'complevel': op['complevel'], 'src': src, 'life': 'retained',
                               'size_ack': os.path.getsize(ack)}
        gid = getattr(h, '_grpid', None)
        if gid in st.ids:
            st.stats['recycled_ids'] += 1
            w.probe('handle_id_recycled')
        st.ids.add(gid)
        from PseudoNetCDF.pncgen import Pseudo2NetCDF
        if dict(Pseudo2NetCDF.create_variable_kwds or {}) != st.kwds0:
            st.stats['class_kwds_drift'] += 1
            w.probe('class_level_writer_options_drifted')
        obs['size'] = st.saves[op['cid']]['size_ack']
    elif o == 'handle':
        s = st.saves.get(op['cid'])
        if s is None or s['handle'] is None:
            return {'note': 'noop'}
        do = op['do']
        st.stats['by_schedule'][do] = st.stats['by_schedule'].get(do, 0) + 1
        h = s['handle']
        if do == 'retain':
            pass
        elif do in ('close', 'close2'):
            try:
                h.close()
            except BaseException as e:
                obs['note'] = 'close raised ' + type(e).__name__
            # (a second close of the raw netCDF4 handle is upstream code; not generated)
            s['life'] = 'closed'
            s['handle'] = None if do == 'close2' else h
            w.fault('close')
        elif do in ('drop', 'drop+collect'):
            s['handle'] = None
            h = None
            s['life'] = 'dropped'
            w.fault('drop_reference')
            if do == 'drop+collect':
                seams.GC.collect(2)
                w.fault('gc_between')
                s['life'] = 'dropped+collected'
        st.stats['nontrivial'] = True
    elif o == 'read':
        s = st.saves.get(op['cid'])
        if s is None:
            return {'note': 'noop'}
        if op['which'] == 'ack':
            _check_image(st, s, s['ack'], 'ack', op['how'], False)
        else:
            if s['life'] == 'retained':
                return {'note': 'noop (handle retained: only the ack image is read)'}
            if s['life'] == 'dropped':
                # reference dropped but finaliser not run: the durable state is
                # whatever is on disk now
                pass
            _check_image(st, s, s['path'], 'path-' + s['life'], op['how'], op.get('keep', False))
    elif o == 'final':
        # end of the process: every handle closed; every file read once more
        for cid in sorted(st.saves):
            s = st.saves[cid]
            for g in s.get('readers', []):
                try:
                    g.close()
                except BaseException:
                    pass
            s['readers'] = []
            if s['handle'] is not None and s['life'] == 'retained':
                try:
                    s['handle'].close()
                except BaseException:
                    pass
            s['handle'] = None
        seams.GC.collect(2)
        for cid in sorted(st.saves):
            s = st.saves[cid]
            s['life'] = 'final'
            _check_image(st, s, s['path'], 'path-final', 'explicit', False)
            fin = os.path.getsize(s['path'])
            if fin != s['size_ack']:
                st.stats['pending_bytes_at_ack'] += abs(fin - s['size_ack'])
            with open(s['path'], 'rb') as a, open(s['ack'], 'rb') as b:
                if a.read() != b.read():
                    st.stats['ack_differs_from_final'] += 1
    else:
        raise HarnessError('unknown op %r' % (op,))
    w.abstract(o, op.get('fmt', '-'), op.get('do', '-'), op.get('which', '-'),
               ','.join(sorted(s['life'] for s in st.saves.values())))
    return obs


def finish(st):
    pass


def stats(st):
    return st.stats


def simplify_op(op):
    out = []
    if op.get('op') == 'save':
        sp = op['spec']
        if op.get('complevel'):
            out.append(dict(op, complevel=0))
        if len(sp['vars']) > 1:
            for i in range(len(sp['vars'])):
                out.append(dict(op, spec=dict(sp, vars=sp['vars'][:i] + sp['vars'][i + 1:])))
        if sp['attrs']:
            out.append(dict(op, spec=dict(sp, attrs={})))
        for i, v in enumerate(sp['vars']):
            if v['attrs']:
                nv = dict(v, attrs={})
                out.append(dict(op, spec=dict(sp, vars=sp['vars'][:i] + [nv] + sp['vars'][i + 1:])))
            if v.get('mask') is not None:
                nv = {k: x for k, x in v.items() if k not in ('mask', 'fill', 'fillkind')}
                out.append(dict(op, spec=dict(sp, vars=sp['vars'][:i] + [nv] + sp['vars'][i + 1:])))
    if op.get('op') == 'read' and op.get('how') == 'auto':
        out.append(dict(op, how='explicit'))
    return out
