"""C14 — truncated binary files are never silently misread.

Fault: the producer of a file stopped at byte N (interrupted run or copy).
One run = one generated file (format and shape seeded) and a set of cut
offsets; every cut is evaluated by the REAL reader in a forked child under a
CPU-time limit (a torn file can send a reader into a loop no in-process alarm
interrupts).  Oracle: the reader raises, or exposes only complete steps that
lie wholly inside the prefix and are bit-identical to the producer's ground
truth, with the full file's time flags and grid shape.
"""
import gc
import json
import os
import resource
import select
import signal

import numpy as np

from .core import seams
from .core.world import Violation, HarnessError
from .refcodec import camx
from .refcodec import bpch as bpchcodec

NAME = 'crash'
PROPERTIES = ['C14']

FORMATS = ['uamiv', 'lateral_boundary', 'temperature', 'wind', 'one3d',
           'humidity', 'vertical_diffusivity', 'height_pressure', 'bpch', 'cloud_rain',
           'landuse']
CPU_CAP_S = 6           # per cut, alone; normal cost is 1-3 ms
BATCH = 150


def gen_config(rng, tier):
    return {'format': rng.choice(FORMATS),
            'exhaustive': tier == 'thorough' and rng.random() < 0.5,
            'sample': rng.choice([40, 80, 160]) if tier == 'quick' else 600,
            'via': rng.choice(['class', 'pncopen', 'record']),
            # the documented writable mode of the header-bearing memmap readers
            'mode': rng.choice(['r', 'r', 'r+']),
            'clock': 'steady', 'max_steps': 100000}


class State(object):
    def __init__(self, world, config):
        self.w = world
        self.c = config
        self.file = None
        self.todo = None
        self.stats = {'cuts': 0, 'raised': 0, 'exposed': 0, 'exposed_steps': 0,
                      'hangs': 0, 'evaluations': 0, 'nontrivial': False,
                      'by_format': {}, 'cutclass': {}, 'exhaustive_files': 0,
                      'full_file_disagrees_with_producer': 0, 'outcomes': {},
                      'viol_classes': {}, 'known_hits': {}}


def start(world, config):
    return State(world, config)


# ---------------------------------------------------------------------------
def _mkspec(rng, fmt, wide=False):
    sdate = rng.choice([2002154, 2003365, 2004059, 2004366, 1995001, 2011120, 1999365])
    stime = rng.choice([0, 1, 12, 22, 23])
    base = {'nx': rng.randrange(1, 6), 'ny': rng.randrange(1, 6),
            'nz': rng.randrange(1, 4), 'nt': rng.randrange(1, 5),
            'sdate': sdate, 'stime': float(stime)}
    if fmt == 'uamiv':
        base['species'] = ['O3', 'NO2', 'CO'][:rng.randrange(1, 4)]
        base['name'] = rng.choice(['AVERAGE', 'EMISSIONS', 'INSTANT', 'AIRQUALITY'])
    elif fmt == 'lateral_boundary':
        base['species'] = ['O3', 'NO2', 'CO'][:rng.randrange(1, 4)]
        base['nx'] = max(base['nx'], 2)
        base['ny'] = max(base['ny'], 2)
    elif fmt == 'landuse':
        base['nland'] = rng.choice([11, 26])
        base['extra'] = rng.choice([[], ['VAR1'], ['LAI', 'TOPO']])
        base['nt'] = 1
    elif fmt == 'bpch':
        base['nt'] = rng.randrange(1, 4)
        nb = rng.randrange(1, 4)
        base['blocks'] = [{'cat': 'IJ-AVG-$', 'tid': i + 1, 'nl': rng.randrange(1, 4),
                           'name': ['O3', 'NOx', 'CO'][i], 'scale': [1e9, 1.0, 1e6][i]}
                          for i in range(nb)]
    else:
        base['kind'] = fmt
        if base['nt'] == 1 and rng.random() < 0.8:
            base['nt'] = rng.randrange(2, 5)
        if fmt == 'wind' and rng.random() < 0.3:
            base['nostagger'] = True       # older flavour: 8-byte time records
    if wide and fmt not in ('bpch', 'landuse') and rng.random() < 0.15:
        # a production-sized horizontal grid: one step is tens of kilobytes, so a
        # cut a few bytes off a step boundary is a relative error of 1e-4 or less
        # in (size - header) / step - where a tolerant or rounded step count shows
        base['nx'] = rng.randrange(40, 70)
        base['ny'] = rng.randrange(40, 70)
    return base


def build(fmt, spec):
    """-> (bytes, meta, truth) ; truth[var] = array with leading step axis"""
    if fmt == 'uamiv':
        g = camx.gridded_from_spec(spec)
        b, meta = camx.encode_gridded(g)
        truth = {s: np.asarray(g['data'][:, i], dtype='f4')
                 for i, s in enumerate(g['species'])}
    elif fmt == 'lateral_boundary':
        g = camx.boundary_from_spec(spec)
        b, meta = camx.encode_boundary(g)
        truth = {}
        for e in camx.EDGES:
            for i, s in enumerate(g['species']):
                truth['%s_%s' % (e, s)] = np.asarray(g['edges'][e][:, i], dtype='f4')
    elif fmt == 'cloud_rain':
        m = camx.cloud_rain_from_spec(spec)
        b, meta = camx.encode_cloud_rain(m)
        truth = {k: np.asarray(v, dtype='f4') for k, v in m['fields'].items()}
    elif fmt == 'landuse':
        m = camx.landuse_from_spec(spec)
        b, meta = camx.encode_landuse(m)
        truth = {'LUCAT%02d' % m['nland']: np.asarray(m['FLAND'], dtype='f4')[None]}
        for k, a in m['extra']:
            truth[k] = np.asarray(a, dtype='f4')[None]
    elif fmt == 'bpch':
        times = []
        base = 1.0
        truth = {}
        for t in range(spec['nt']):
            blocks = []
            for bl in spec['blocks']:
                n = bl['nl'] * spec['ny'] * spec['nx']
                a = ((base + 0.25 * np.arange(n, dtype='f8')) * 1e-3).astype('f4').reshape(
                    bl['nl'], spec['ny'], spec['nx'])
                base += 0.25 * n + 10.
                blocks.append({'category': bl['cat'], 'tracer': bl['tid'], 'unit': 'v/v',
                               'tau0': 1000.0 + t, 'tau1': 1001.0 + t, 'start': (3, 4, 1),
                               'data': a, 'reserved': ''})
                truth.setdefault('%s_%s' % (bl['cat'], bl['name']), []).append(
                    (a.astype('f4') * np.float32(bl['scale'])).astype('f4'))
            times.append(blocks)
        truth = {k: np.stack(v) for k, v in truth.items()}
        doc = {'modelname': 'GEOS5_47L', 'modelres': (5.0, 4.0), 'halfpolar': 1,
               'center180': 1, 'times': times}
        b, meta = bpchcodec.encode(doc)
    else:
        m = camx.met_from_spec(spec)
        b, meta = camx.encode_met(m)
        f = m['fields']
        if fmt in ('one3d', 'humidity', 'vertical_diffusivity'):
            name = {'one3d': 'UNKNOWN', 'humidity': 'HUM',
                    'vertical_diffusivity': 'KV'}[fmt]
            truth = {name: np.asarray(f['X'], dtype='f4')}
        elif fmt == 'temperature':
            truth = {'SURFTEMP': np.asarray(f['SURF'], dtype='f4'),
                     'AIRTEMP': np.asarray(f['AIR'], dtype='f4')}
        elif fmt == 'height_pressure':
            truth = {'HGHT': np.asarray(f['HGHT'], dtype='f4'),
                     'PRES': np.asarray(f['PRES'], dtype='f4')}
        elif fmt == 'wind':
            truth = {'U': np.asarray(f['U'], dtype='f4'),
                     'V': np.asarray(f['V'], dtype='f4')}
        else:
            raise HarnessError(fmt)
    return b, meta, truth


RECORD_FORMATS = ('uamiv', 'temperature', 'wind', 'one3d', 'humidity', 'vertical_diffusivity',
                  'height_pressure')


def open_reader(fmt, path, spec, via, mode='r'):
    import PseudoNetCDF as pnc
    if fmt == 'bpch':
        return pnc.pncopen(path, format='bpch1')
    if via == 'record' and fmt in RECORD_FORMATS:
        # the sequential record readers (no time-flag variables)
        from PseudoNetCDF.camxfiles import Readers
        cls = getattr(Readers, fmt)
        return cls(path) if fmt == 'uamiv' else cls(path, spec['ny'], spec['nx'])
    if fmt in ('uamiv', 'lateral_boundary'):
        kw = {} if mode == 'r' else {'mode': mode}
        if via == 'pncopen':
            return pnc.pncopen(path, format=fmt, **kw)
        from PseudoNetCDF.camxfiles import Memmaps
        return getattr(Memmaps, fmt)(path, **kw)
    rows, cols = spec['ny'], spec['nx']
    if fmt == 'landuse' and mode != 'r':
        from PseudoNetCDF.camxfiles import Memmaps
        return Memmaps.landuse(path, rows, cols, mode=mode)
    if via == 'pncopen':
        return pnc.pncopen(path, format=fmt, rows=rows, cols=cols)
    from PseudoNetCDF.camxfiles import Memmaps
    return getattr(Memmaps, fmt)(path, rows, cols)


def present(fmt, path, spec, via, mode='r'):
    """What the reader presents: {'vars': {name: array}, 'tflag': array|None}
    Every variable and the time flags are fully read."""
    f = open_reader(fmt, path, spec, via, mode)
    out = {}
    if fmt == 'bpch':
        for k in list(f.variables.keys()):
            v = f.variables[k]
            if hasattr(v, 'tracerid'):
                out[k] = np.array(v[...], dtype='f4')
        t0 = np.array(f.variables['tau0'][...], 'f8')
        t1 = np.array(f.variables['tau1'][...], 'f8')
        return {'vars': out, 'tflag': np.stack([t0, t1], axis=1)[:, None, :]}
    keys = list(f.variables.keys())
    tflag = None
    etflag = None
    first = None
    for k in keys:
        try:
            v = f.variables[k]
            a = np.array(v[...])
        except Exception as e:
            first = (k, e)
            break
        if k in ('TFLAG', 'ETFLAG'):
            if k == 'TFLAG':
                tflag = a
            else:
                etflag = a
            continue
        out[k] = a[None] if fmt == 'landuse' else a     # the whole file is one "step"
    if first is not None:
        # The read raised: an allowed outcome.  A user who catches the error and
        # asks for the same variable again on the same object must not now be
        # handed data (a reader that stored a half-built variable before it
        # noticed the damage answers the second request from that store): what a
        # retry RETURNS is judged like any other exposure.
        k, e = first
        try:
            a = np.array(f.variables[k][...])
        except Exception:
            raise e
        if k in ('TFLAG', 'ETFLAG'):
            raise e
        a = a[None] if fmt == 'landuse' else a
        return {'vars': {k: a}, 'tflag': None, 'etflag': None, 'raised': [],
                'retried': [k], 'partial': True}
    return {'vars': out, 'tflag': tflag, 'etflag': etflag, 'raised': [], 'retried': []}


def judge(fmt, pres, truth, full, N, step_ends, boundaries=None):
    """None if the prefix presentation is allowed, else (what, detail)."""
    nt_true = len(step_ends)
    on_boundary = boundaries is None or N in boundaries
    if fmt == 'bpch' and pres['vars'] and N < step_ends[0] and on_boundary and \
            set(pres['vars']) < set(truth) and \
            all(a.shape[0] == 1 and a.shape[1:] == truth[k].shape[1:] and
                a[0].astype('f4').tobytes() == truth[k][0].astype('f4').tobytes()
                for k, a in pres['vars'].items()):
        # a bpch file cut on a data-block boundary inside its FIRST time block is
        # itself a valid file with fewer tracers (see known_findings.json)
        return ('first-step-fewer-tracers',
                'one time block with tracers %s of %s (values genuine); the prefix ends on '
                'a data-block boundary inside the first time block' % (
                    sorted(pres['vars']), sorted(truth)))
    if fmt == 'cloud_rain' and on_boundary and set(pres['vars']) == {'CLOUD', 'PRECIP', 'COD'}:
        # the format version (3 or 5 fields per layer) is inferred from the file
        # size: a 5-field file cut where the size fits the 3-field layout is
        # byte-for-byte a valid v4.2 file (see known_findings.json)
        return ('read-as-3-field-layout',
                'the prefix has the size of a complete older (3 fields per layer) file and is '
                'presented as CLOUD/PRECIP/COD with %d step(s)' % (
                    max([a.shape[0] for a in pres['vars'].values()] + [0])))
    if fmt == 'landuse' and pres['vars'] and on_boundary and N < step_ends[0] and \
            set(pres['vars']) < set(truth) and \
            all(a.shape == truth[k].shape and a.astype('f4').tobytes() ==
                truth[k].astype('f4').tobytes() for k, a in pres['vars'].items()):
        # a land-use file cut after the fractions (or after the first optional
        # field) is itself a valid land-use file without the later optional fields
        return ('fewer-optional-fields',
                'fields %s of %s presented (values genuine); the prefix ends on a record '
                'boundary after a complete field' % (sorted(pres['vars']), sorted(truth)))
    for k, a in pres['vars'].items():
        if k not in truth:
            return ('unknown-variable', 'variable %s is not in the file' % k)
        t = truth[k]
        if a.ndim == t.ndim + 1 and a.shape[1] == 1:
            a = a[:, 0]        # the record readers give surface fields a layer axis of 1
        if a.ndim != t.ndim or tuple(a.shape[1:]) != tuple(t.shape[1:]):
            # a headerless meteorological file cut on a record boundary inside
            # its FIRST step is itself a well-formed file with fewer layers:
            # classified apart (see known_findings.json)
            if (on_boundary and a.ndim == t.ndim == 4 and a.shape[0] == 1 and
                    tuple(a.shape[2:]) == tuple(t.shape[2:]) and
                    0 <= a.shape[1] < t.shape[1] and N < step_ends[0] and
                    a[0].astype('f4').tobytes() ==
                    t[0][:a.shape[1]].astype('f4').tobytes()):
                return ('first-step-fewer-layers',
                        'variable %s presents one step with %d of the %d layers '
                        '(values genuine); the prefix ends on a record boundary '
                        'inside the first step' % (k, a.shape[1], t.shape[1]))
            return ('shape', 'variable %s has shape %s; the file holds %s per step'
                    % (k, a.shape, t.shape[1:]))
        n = a.shape[0]
        if n > nt_true:
            return ('steps-beyond-file', '%s exposes %d steps, the full file has %d'
                    % (k, n, nt_true))
        for i in range(n):
            if a[i].astype('f4').tobytes() != t[i].astype('f4').tobytes():
                bad = np.nonzero(a[i].astype('f4').ravel() != t[i].astype('f4').ravel())[0]
                j = int(bad[0]) if bad.size else -1
                return ('data', '%s step %d differs from the full file (first at '
                        'flat cell %d: %r instead of %r; %d cells)%s' % (
                            k, i, j, a[i].ravel()[j].item() if j >= 0 else None,
                            t[i].ravel()[j].item() if j >= 0 else None, bad.size,
                            '; the step ends at byte %d, beyond the cut' % step_ends[i]
                            if step_ends[i] > N else ''))
            if step_ends[i] > N:
                # (values genuine) an incomplete step is exposed
                return ('steps-beyond-prefix',
                        '%s exposes step %d which ends at byte %d but the file '
                        'was cut at %d' % (k, i, step_ends[i], N))
    for k in truth:
        if k not in pres['vars'] and pres['vars'] and not pres.get('partial'):
            return ('missing-variable', 'variable %s of the file is not presented' % k)
    tf = pres['tflag']
    if tf is not None and full is not None and full.get('tflag') is not None:
        ft = full['tflag']
        n = tf.shape[0]
        if n > ft.shape[0]:
            return ('tflag', 'TFLAG has %d steps, full file %d' % (n, ft.shape[0]))
        if n and (tf.shape[1:] != ft.shape[1:] or
                  not np.array_equal(np.asarray(tf), np.asarray(ft[:n]))):
            return ('tflag', 'time flags %s differ from the full file %s' % (
                np.asarray(tf)[:, 0].tolist(), np.asarray(ft[:n])[:, 0].tolist()))
        for i in range(n):
            if step_ends[i] > N:
                return ('steps-beyond-prefix',
                        'TFLAG exposes step %d (ends at byte %d) beyond the cut %d'
                        % (i, step_ends[i], N))
    # the end-of-period flags are time flags too
    ef = pres.get('etflag')
    if ef is not None and full is not None and full.get('etflag') is not None:
        fe = np.asarray(full['etflag'])
        ef = np.asarray(ef)
        n = ef.shape[0]
        if n > fe.shape[0] or (n and (ef.shape[1:] != fe.shape[1:] or
                                      not np.array_equal(ef, fe[:n]))):
            return ('etflag', 'end time flags %s differ from the full file %s' % (
                ef[:, 0].tolist() if ef.ndim == 3 else ef.tolist(),
                (fe[:n][:, 0].tolist() if fe.ndim == 3 else fe[:n].tolist())))
    return None


def interrupted_run_images(st, Ns):
    """'Interrupted run' injector: the REAL library writer runs in a forked child
    whose file-size limit is N bytes (the kernel refuses every byte beyond N: a
    disk-full / quota fault at an exact offset).  Returns {N: bytes left on disk}
    plus the complete output of the same writer.  Used to cross-check the crash
    model 'a sequential writer interrupted at byte N leaves the N-byte prefix'."""
    from . import scen_ack_camx as ack
    f = st.file
    spec = dict(f['spec'], fmt=f['fmt'], special=False, srcdtype='f', layout='C')
    if f['fmt'] == 'uamiv':
        spec.setdefault('note', 'stub producer')
        spec.setdefault('name', 'AVERAGE')
    truth = ack.truth_of(spec)
    out = {}
    path = st.w.path('interrupted.' + f['fmt'])

    def run(limit):
        pid = os.fork()
        if pid == 0:
            try:
                resource.setrlimit(resource.RLIMIT_CPU, (CPU_CAP_S, CPU_CAP_S + 1))
                if limit is not None:
                    signal.signal(signal.SIGXFSZ, signal.SIG_IGN)
                    resource.setrlimit(resource.RLIMIT_FSIZE, (limit, limit))
                src = ack.build_source(spec, truth)
                h = ack.library_write(src, path, f['fmt'], spec)
                try:
                    h.close()
                except BaseException:
                    pass
            except BaseException:
                os._exit(3)
            os._exit(0)
        _, status = os.waitpid(pid, 0)
        raised = os.WIFEXITED(status) and os.WEXITSTATUS(status) == 3
        try:
            with open(path, 'rb') as fh:
                b = fh.read()
        except OSError:
            b = None
        try:
            os.remove(path)
        except OSError:
            pass
        return b, raised
    complete, _ = run(None)
    for N in Ns:
        out[N] = run(N)
    return complete, out


def cutclass(N, meta, rec_bounds):
    if N in meta['step_ends']:
        return 'step-boundary'
    if N < meta['header_end']:
        return 'header'
    for b in rec_bounds:
        if abs(N - b) < 4 and N != b:
            return 'inside-marker'
    if N in rec_bounds:
        return 'record-boundary'
    return 'mid-record'


# ---------------------------------------------------------------------------
# cut evaluation in forked children
# ---------------------------------------------------------------------------
def _eval_cuts_child(st, Ns, wfd, cap):
    """child: evaluate cuts sequentially, one JSON line per cut"""
    f = st.file
    resource.setrlimit(resource.RLIMIT_CPU, (cap, cap + 1))
    try:
        resource.setrlimit(resource.RLIMIT_AS, (4 << 30, 4 << 30))
    except Exception:
        pass
    path = st.w.path('cut.' + f['fmt'])
    for n, N in enumerate(Ns):
        with open(path, 'wb') as fh:
            fh.write(f['bytes'][:N])
        res = {'N': N}
        try:
            pres = present(f['fmt'], path, f['spec'], st.c['via'], st.c.get('mode', 'r'))
            bad = judge(f['fmt'], pres, f['truth'], f['full'], N,
                        f['meta'].get('data_ends', f['meta']['step_ends']),
                        set(f['meta'].get('block_ends', f['rec_bounds'])))
            if bad is None and os.path.getsize(path) != N:
                bad = ('file-grown-by-reader', 'opening the %d-byte prefix left a %d-byte '
                       'file on disk' % (N, os.path.getsize(path)))
            nst = max([a.shape[0] for a in pres['vars'].values()] + [0])
            res['out'] = 'exposed'
            res['steps'] = int(nst)
            if bad is not None:
                res['bad'] = bad
        except MemoryError:
            res['out'] = 'raised'
            res['exc'] = 'MemoryError'
        except BaseException as e:
            res['out'] = 'raised'
            res['exc'] = type(e).__name__
        os.write(wfd, (json.dumps(res) + '\n').encode())
        if n % 40 == 39:
            gc.collect()
    os._exit(0)


def eval_cuts(st, Ns, cap=None, max_hangs=None):
    """-> list of result dicts in order; a cut whose evaluation does not
    finish within the CPU cap gets {'out': 'hang'}.  Evaluation stops after
    the first hang unless max_hangs says otherwise (every hang costs the full
    CPU cap, and one is enough for a verdict)."""
    out = []
    todo = list(Ns)
    alone = False
    hangs = 0
    while todo:
        if hangs >= (max_hangs or 1):
            break
        batch = todo[:1] if alone else todo[:BATCH]
        cap_s = CPU_CAP_S if (alone or len(batch) == 1) else CPU_CAP_S + 1 + len(batch) // 20
        r, w = os.pipe()
        pid = os.fork()
        if pid == 0:
            os.close(r)
            try:
                _eval_cuts_child(st, batch, w, cap_s)
            finally:
                os._exit(1)
        os.close(w)
        buf = b''
        while True:
            b = os.read(r, 65536)
            if not b:
                break
            buf += b
        os.close(r)
        _, status = os.waitpid(pid, 0)
        got = [json.loads(x) for x in buf.decode().split('\n') if x.strip()]
        out.extend(got)
        todo = todo[len(got):]
        if len(got) < len(batch):
            # the child died on cut todo[0]
            killed = os.WIFSIGNALED(status) and os.WTERMSIG(status) in (
                signal.SIGXCPU, signal.SIGKILL)
            if alone or len(batch) == 1:
                N = todo.pop(0)
                if killed:
                    out.append({'N': N, 'out': 'hang'})
                    hangs += 1
                else:
                    out.append({'N': N, 'out': 'died',
                                'status': status})
                alone = False
            else:
                alone = True       # re-run the culprit alone under its own cap
        else:
            alone = False
    return out


# ---------------------------------------------------------------------------
def gen_op(rng, st):
    c = st.c
    if st.file is None and st.todo is None:
        st.todo = 'cuts'
        return {'op': 'mkfile', 'fmt': c['format'],
                'spec': _mkspec(rng, c['format'], wide=not c['exhaustive'])}
    if st.todo == 'cuts':
        st.todo = 'done'
        f = st.file
        if f is None:
            return None
        size = len(f['bytes'])
        if c['exhaustive']:
            Ns = list(range(size))
        else:
            want = set()
            for b in f['rec_bounds'] + f['meta']['step_ends'] + [f['meta']['header_end']]:
                for d in (-5, -4, -3, -2, -1, 0, 1, 2, 3, 4, 5, 8, 12):
                    if 0 <= b + d < size:
                        want.add(b + d)
            for k in range(0, min(size, 64)):
                want.add(k)
            for _ in range(c['sample']):
                want.add(rng.randrange(size))
            Ns = sorted(want)
            # quick tier: bound the work per file
            if len(Ns) > 900:
                keep = set(rng.sample(Ns, 900))
                keep.update(x for x in f['meta']['step_ends'] if x < size)
                Ns = sorted(keep)
        st.todo = 'xcheck' if (c['format'] != 'bpch' and rng.random() < 0.3) else 'done'
        st.xN = sorted(set(rng.randrange(1, size) for _ in range(10)))
        return {'op': 'cuts', 'Ns': Ns, 'exhaustive': bool(c['exhaustive'])}
    if st.todo == 'xcheck':
        st.todo = 'done'
        return {'op': 'interrupted_run', 'Ns': st.xN}
    return None


def apply(st, op):
    w = st.w
    o = op['op']
    if o == 'mkfile':
        fmt = op['fmt']
        b, meta, truth = build(fmt, op['spec'])
        if fmt == 'bpch':
            with open(w.path('tracerinfo.dat'), 'w') as fh:
                fh.write(bpchcodec.tracerinfo_text(
                    [{'name': x['name'], 'id': x['tid'], 'scale': x['scale'], 'unit': 'ppbv'}
                     for x in op['spec']['blocks']]))
            with open(w.path('diaginfo.dat'), 'w') as fh:
                fh.write(bpchcodec.diaginfo_text([{'offset': 0, 'category': 'IJ-AVG-$',
                                                   'comment': 'stub'}]))
        recs = camx.walk(b)
        rec_bounds = sorted(set([off for off, p in recs] + [off + 8 + len(p) for off, p in recs]))
        st.file = {'fmt': fmt, 'spec': op['spec'], 'bytes': b, 'meta': meta,
                   'truth': truth, 'rec_bounds': rec_bounds, 'full': None}
        # the complete file must read back as the producer's truth; otherwise
        # producer and reader disagree (C09/C13's subject) and cuts of this
        # file are not judged
        full = eval_full(st)
        st.file['full'] = full.get('pres')
        st.file['full_ok'] = full.get('ok', False)
        if not st.file['full_ok']:
            st.stats['full_file_disagrees_with_producer'] += 1
            # which (format, reader family, reason) combinations are not judged:
            # reported in the evidence so that a whole family silently dropping
            # out of the check is visible
            why = full.get('why') or ['?']
            k = '%s/%s/%s' % (fmt, 'record' if (st.c['via'] == 'record' and fmt in RECORD_FORMATS)
                              else 'memmap', why[0])
            st.stats.setdefault('not_judged', {})
            st.stats['not_judged'][k] = st.stats['not_judged'].get(k, 0) + 1
        else:
            k = '%s/%s' % (fmt, 'record' if (st.c['via'] == 'record' and fmt in RECORD_FORMATS)
                           else 'memmap')
            st.stats.setdefault('judged', {})
            st.stats['judged'][k] = st.stats['judged'].get(k, 0) + 1
        return {'size': len(b), 'steps': len(meta['step_ends']),
                'full_ok': st.file['full_ok'], 'why': full.get('why')}
    if o == 'cuts':
        f = st.file
        if f is None:
            return {'note': 'noop'}
        if not f.get('full_ok'):
            return {'note': 'complete file not read back as the truth; not judged'}
        size = len(f['bytes'])
        Ns = [N for N in op['Ns'] if 0 <= N < size]
        res = eval_cuts(st, Ns, max_hangs=3 if st.c.get('collect_all') else 1)
        fmt = f['fmt']
        bf = st.stats['by_format'].setdefault(fmt, {'cuts': 0, 'raised': 0,
                                                    'exposed': 0, 'hang': 0})
        summary = {}
        collect = st.c.get('collect_all')
        for r in res:
            N = r['N']
            cc = cutclass(N, f['meta'], f['rec_bounds'])
            st.stats['cuts'] += 1
            st.stats['evaluations'] += 1
            st.stats['cutclass'][cc] = st.stats['cutclass'].get(cc, 0) + 1
            bf['cuts'] += 1
            w.fault('cut_' + cc)
            key = r['out'] + (':' + r.get('exc', '') if r['out'] == 'raised' else '')
            summary[key] = summary.get(key, 0) + 1
            bad = None
            if r['out'] == 'raised':
                st.stats['raised'] += 1
                bf['raised'] += 1
            elif r['out'] == 'exposed':
                st.stats['exposed'] += 1
                st.stats['exposed_steps'] += r.get('steps', 0)
                bf['exposed'] += 1
                if r.get('steps', 0) > 0:
                    w.probe('prefix_exposed_complete_steps')
                if r.get('bad'):
                    bad = tuple(r['bad'])
            elif r['out'] == 'hang':
                st.stats['hangs'] += 1
                bf['hang'] += 1
                bad = ('no-answer', 'reader did not return within %d s of CPU '
                       'time (normal cost: milliseconds)' % CPU_CAP_S)
            else:
                # the reader took the process down (signal): neither "raises" nor
                # "exposes complete steps"
                bad = ('reader-crashed', 'the reading process died (wait status %r)' % (
                    r.get('status'),))
            if bad is not None:
                ends = f['meta'].get('data_ends', f['meta']['step_ends'])
                nxt = [e for e in ends if e > N]
                sig = {'format': fmt, 'what': bad[0],
                       'reader': 'record' if (st.c['via'] == 'record' and fmt in RECORD_FORMATS)
                       else 'memmap',
                       # the cut took (part of) the trailing length marker of the step's
                       # last record only: every data byte of that step is in the prefix
                       'only_trailing_marker_missing': bool(nxt) and nxt[0] - N <= 4}
                kn = w.known_match(dict(sig, invariant='truncated-file-misread'))
                if kn is not None:
                    kh = st.stats['known_hits'].setdefault(kn, {'n': 0, 'example': None})
                    kh['n'] += 1
                    if kh['example'] is None:
                        kh['example'] = '%s nx=%d ny=%d nz=%d nt=%d cut at %d of %d: %s' % (
                            fmt, f['spec']['nx'], f['spec']['ny'], f['spec']['nz'],
                            f['spec']['nt'], N, size, bad[1])
                    continue
                if collect:
                    k = '%s/%s/%s' % (fmt, bad[0], cc)
                    st.stats['viol_classes'][k] = st.stats['viol_classes'].get(k, 0) + 1
                    continue
                op['Ns'] = [N]      # the recorded operation keeps only the failing cut
                raise Violation(
                    'truncated-file-misread',
                    '%s file of %d bytes (%d steps, nx=%d ny=%d nz=%d) cut at byte %d '
                    '(%s): %s' % (fmt, size, len(f['meta']['step_ends']),
                                  f['spec']['nx'], f['spec']['ny'], f['spec']['nz'],
                                  N, cc, bad[1]), sig=sig)
        if op.get('exhaustive') and len(Ns) == size:
            st.stats['exhaustive_files'] += 1
        st.stats['nontrivial'] = True
        for k, v in summary.items():
            st.stats['outcomes'][k] = st.stats['outcomes'].get(k, 0) + v
        w.abstract(fmt, len(f['meta']['step_ends']), f['spec']['nx'], f['spec']['ny'],
                   f['spec']['nz'], len(Ns))
        return {'cuts': len(res), 'summary': summary}
    if o == 'interrupted_run':
        f = st.file
        if f is None or not f.get('full_ok'):
            return {'note': 'noop'}
        try:
            complete, imgs = interrupted_run_images(st, op['Ns'])
        except BaseException as e:
            return {'note': 'injector unavailable: %s' % type(e).__name__}
        if complete is None:
            return {'note': 'library writer produced no file'}
        agree = 0
        raised = 0
        for N, (b, r) in sorted(imgs.items()):
            w.fault('disk_full_during_real_writer')
            raised += 1 if r else 0
            if b is not None and N <= len(complete) and b == complete[:N]:
                agree += 1
                w.probe('interrupted_run_image_equals_prefix')
            elif N > len(complete) and b == complete:
                agree += 1
            else:
                w.probe('interrupted_run_image_differs_from_prefix')
        st.stats['interrupted_runs'] = st.stats.get('interrupted_runs', 0) + len(imgs)
        st.stats['interrupted_run_equals_prefix'] = \
            st.stats.get('interrupted_run_equals_prefix', 0) + agree
        st.stats['interrupted_writer_raised'] = st.stats.get('interrupted_writer_raised', 0) + raised
        # the torn images the real writer leaves are judged like any other cut
        torn = sorted(N for N, (b, r) in imgs.items()
                      if b is not None and N < len(f['bytes']) and b == f['bytes'][:N])
        if torn:
            w.probe('interrupted_run_image_identical_to_stub_prefix', len(torn))
        return {'agree': agree, 'of': len(imgs), 'writer_raised': raised}
    raise HarnessError('unknown op %r' % (op,))


def eval_full(st):
    """read the complete file in a child; compare with the producer's truth"""
    f = st.file
    r, w = os.pipe()
    pid = os.fork()
    if pid == 0:
        os.close(r)
        out = {}
        try:
            resource.setrlimit(resource.RLIMIT_CPU, (CPU_CAP_S, CPU_CAP_S + 1))
            path = st.w.path('full.' + f['fmt'])
            with open(path, 'wb') as fh:
                fh.write(f['bytes'])
            pres = present(f['fmt'], path, f['spec'], st.c['via'], st.c.get('mode', 'r'))
            size = len(f['bytes'])
            bad = judge(f['fmt'], pres, f['truth'], None, size, f['meta']['step_ends'])
            nst = [a.shape[0] for a in pres['vars'].values()]
            if bad is None and (not nst or min(nst) != len(f['meta']['step_ends'])):
                bad = ('steps', 'complete file presents %s steps, producer wrote %d'
                       % (nst, len(f['meta']['step_ends'])))
            out['ok'] = bad is None
            out['why'] = bad
            out['tflag'] = None if pres['tflag'] is None else np.asarray(pres['tflag']).tolist()
            out['etflag'] = None if pres.get('etflag') is None else \
                np.asarray(pres['etflag']).tolist()
        except BaseException as e:
            out = {'ok': False, 'why': ['raised', '%s: %s' % (type(e).__name__, e)]}
        try:
            os.write(w, json.dumps(out).encode())
        finally:
            os._exit(0)
    os.close(w)
    buf = b''
    while True:
        b = os.read(r, 65536)
        if not b:
            break
        buf += b
    os.close(r)
    os.waitpid(pid, 0)
    if not buf:
        return {'ok': False, 'why': ['no-answer', 'complete file: reader did not return']}
    out = json.loads(buf.decode())
    tf = out.get('tflag')
    ef = out.get('etflag')
    out['pres'] = {'tflag': None if tf is None else np.array(tf),
                   'etflag': None if ef is None else np.array(ef)}
    return out


def finish(st):
    pass


def stats(st):
    return st.stats


def simplify_op(op):
    return []
