"""C13 — memory-mapped and record-based CAMx readers agree.

The record readers keep a hidden file cursor (seek arithmetic on date, time,
species, layer) and lazily cached variables; the memmap readers are stateless.
The simulator owns the ACCESS SCHEDULE: which reader is asked for which
variable / step / layer / raw record next, repeats, interleavings, time flags
first or last, closing the record reader's file at a late step, collections.
After every access the answer of the reader-with-history must equal the answer
of a FRESH reader of the other family on the same selection.  Termination is
part of the property: a fresh open + full read of both readers runs in a forked
child under a CPU limit, and every scheduled access runs under a CPU-time
watchdog.
"""
import json
import os
import resource
import signal
import time

import numpy as np

from .core import seams
from .core.world import Violation, HarnessError
from .refcodec import camx

NAME = 'cursor'
PROPERTIES = ['C13']

FORMATS = ['uamiv', 'temperature', 'height_pressure', 'humidity', 'vertical_diffusivity',
           'wind', 'one3d']
CPU_CAP_S = 8
ACCESS_CAP_S = 4.0
TIMES_CAP = 50000


class Timeout(BaseException):
    pass


class _Known(Exception):
    """a recorded known finding was met; the step is abandoned, the run goes on"""


def _crosses_year_end(spec):
    y, j = divmod(spec['sdate'], 1000)
    leap = (y % 4 == 0 and (y % 100 != 0 or y % 400 == 0))
    last = 366 if leap else 365
    return (spec['nt'] - 1) * float(spec.get('dt', 1.0)) >= (last - j + 1) * 24 - spec['stime']


def _ends_past_midnight(spec):
    """the last period ends at or after 24:00 of the start day"""
    return spec['stime'] + spec['nt'] * float(spec.get('dt', 1.0)) >= 24


def gen_config(rng, tier):
    return {'format': rng.choice(FORMATS),
            'steps': rng.randrange(5, 26) if tier == 'quick' else rng.randrange(5, 41),
            'clock': 'steady', 'max_steps': 200}


def gen_spec(rng, fmt):
    sdate = rng.choice([2002154, 2003365, 2004059, 2004366, 1995001, 2011120, 1999365,
                        1970001, 1970200, 2069100])      # both ends of the two-digit-year window
    stime = rng.choice([0, 0, 1, 5, 12, 12, 20, 22, 23])
    spec = {'fmt': fmt, 'nx': rng.randrange(1, 6), 'ny': rng.randrange(1, 6),
            'nz': rng.randrange(1, 4), 'nt': rng.randrange(1, 6),
            'sdate': sdate, 'stime': float(stime)}
    if rng.random() < 0.12:
        # a long file on a small grid: several calendar days of hourly steps
        spec['nt'] = rng.choice([26, 49, 60])
        spec['nx'] = rng.randrange(2, 4)
        spec['ny'] = rng.randrange(2, 4)
        spec['nz'] = rng.randrange(1, 3)
        spec['sdate'] = rng.choice([2002154, 2004059, 2011120])
    if rng.random() < 0.06:
        # a tall file: many layers on a tiny grid
        spec['nz'] = rng.choice([64, 65, 96, 130])
        spec['nx'] = rng.randrange(2, 4)
        spec['ny'] = 2
        spec['nt'] = rng.randrange(2, 4)
    if rng.random() < 0.2:
        # output every few hours, daily or every other day: consecutive steps can
        # carry the same time of day
        spec['dt'] = float(rng.choice([3, 6, 12, 24, 24, 48]))
    if fmt == 'uamiv':
        spec['species'] = rng.sample(['O3', 'NO2', 'CO', 'PAR', 'ISOP', 'A1B2C3D4E5', 'NO', 'NO3',
                                      'HNO3', 'PNO3', 'HONO', 'N2O5', 'O', 'CO2'],
                                     rng.randrange(1, 6))
        spec['name'] = rng.choice(['AVERAGE', 'AVERAGE', 'EMISSIONS', 'INSTANT', 'AIRQUALITY'])
        if spec['name'] == 'EMISSIONS':
            spec['nz'] = 1           # gridded emissions are surface files
        if spec['name'] == 'AIRQUALITY':
            spec['nt'] = 1           # initial conditions: one time
    else:
        spec['kind'] = fmt
        if fmt == 'wind' and rng.random() < 0.35:
            spec['nostagger'] = True       # 8-byte time records (no stagger flag)
    return spec


def build(spec):
    fmt = spec['fmt']
    if fmt == 'uamiv':
        g = camx.gridded_from_spec(spec)
        b, meta = camx.encode_gridded(g)
        return b
    m = camx.met_from_spec(spec)
    b, meta = camx.encode_met(m)
    return b


def open_reader(family, fmt, path, spec):
    from PseudoNetCDF.camxfiles import Memmaps, Readers
    mod = Memmaps if family == 'm' else Readers
    cls = getattr(mod, fmt)
    if fmt == 'uamiv':
        return cls(path)
    return cls(path, spec['ny'], spec['nx'])


def data_keys(f):
    return [k for k in f.variables.keys() if k not in ('TFLAG', 'ETFLAG')]


def times_of(family, f, fmt):
    """canonical [(YYYYJJJ, HHMMSS)]"""
    if family == 'm':
        a = np.array(f.variables['TFLAG'][...])
        return [(int(x[0]), int(x[1])) for x in a[:, 0, :]]
    out = []
    for d, t in f.timerange():
        if len(out) > TIMES_CAP:
            # a listing far beyond anything a generated file can hold does not
            # end (decided by count, not by a clock: cheap and repeatable)
            raise Timeout('time listing yields more than %d times' % TIMES_CAP)
        if fmt == 'uamiv':
            hh = int(round(float(t) * 10000))
        else:
            hh = int(round(float(t) * 100))
        out.append((camx.yyyyjjj(int(d)), hh))
    return out


def _truth(fmt, sp):
    """what the producer wrote: ([(YYYYJJJ, HHMMSS)], [arrays])"""
    if fmt == 'uamiv':
        g = camx.gridded_from_spec(sp)
        return ([(t[0], int(round(t[1] * 10000))) for t in g['times']],
                [np.asarray(g['data'][:, i]) for i in range(len(g['species']))])
    m = camx.met_from_spec(sp)
    return ([(d, int(round(h * 100))) for d, h in m['times']], list(m['fields'].values()))


def step_class(sp):
    dt = float(sp.get('dt', 1.0))
    return 'hourly' if dt == 1.0 else ('sub-daily' if dt < 24 else 'daily+')


def deviating_detail(fmt, sp, path):
    """per FRESH reader family, how it departs from what the producer wrote:
    'ok', 'time' (only the time listing differs; step count and every value are
    the producer's), 'data' (step count or values differ, or the reader raises or
    does not finish); {} when the truth cannot be computed"""
    try:
        times, arrays = _truth(fmt, sp)
    except BaseException:
        return {}
    tb = set(np.asarray(a, 'f4').tobytes() for a in arrays)
    out = {}
    for fam in 'mr':
        def chk():
            f = open_reader(fam, fmt, path, sp)
            try:
                tok = times_of(fam, f, fmt) == times
            except Exception:
                tok = False
            if 'TSTEP' in f.dimensions and len(f.dimensions['TSTEP']) != sp['nt']:
                return 'data'
            for k in data_keys(f):
                if np.asarray(f.variables[k][...], 'f4').tobytes() not in tb:
                    return 'data'
            return 'ok' if tok else 'time'
        try:
            out[fam], _ = _guard(chk)
        except BaseException:
            out[fam] = 'data'
    return out


def deviating(fmt, sp, path, detail=None):
    """which FRESH reader family departs from what the producer wrote
    ('m', 'r', 'mr' or 'none'): attributes a disagreement, so that a recorded
    limitation of one family never hides a defect of the other"""
    d = deviating_detail(fmt, sp, path) if detail is None else detail
    if not d:
        return '?'
    return ''.join(fam for fam in 'mr' if d[fam] != 'ok') or 'none'


def select(a, sel):
    a = np.asarray(a)
    if sel[0] == 'all':
        return a
    if sel[0] == 't':
        return a[sel[1] % max(1, a.shape[0])]
    if sel[0] == 'tk' and a.ndim >= 3:
        x = a[sel[1] % max(1, a.shape[0])]
        return x[sel[2] % max(1, x.shape[0])] if x.ndim >= 3 else x
    return a


def squeeze_eq(a, b):
    a = np.asarray(a, dtype='f4')
    b = np.asarray(b, dtype='f4')
    sa = tuple(x for x in a.shape if x != 1)
    sb = tuple(x for x in b.shape if x != 1)
    return sa == sb and a.tobytes() == b.tobytes()


# ---------------------------------------------------------------------------
class State(object):
    def __init__(self, world, config):
        self.w = world
        self.c = config
        self.spec = None
        self.path = None
        self.m = None
        self.r = None
        self.r_closed = False
        self.accepted = None
        self.todo = 'mk'
        self.n = 0
        self.replaced = False
        self.it = None
        self.it_keys = None
        self.it_pos = 0
        self.it_which = None
        self.stats = {'evaluations': 0, 'nontrivial': False, 'accesses': 0,
                      'record_reader_rejects': {}, 'files': 0, 'accepted_files': 0,
                      'raw_record_reads': 0, 'after_close': 0, 'by_format': {},
                      'raised_in_access': {}, 'max_access_cpu_s': 0.0, 'known_hits': {}}


def start(world, config):
    return State(world, config)


def gen_op(rng, st):
    c = st.c
    if st.todo == 'mk':
        st.todo = 'probe'
        return {'op': 'mkfile', 'spec': gen_spec(rng, c['format'])}
    if st.todo == 'probe':
        st.todo = 'open'
        return {'op': 'terminates'}
    if st.todo == 'open':
        st.todo = 'sched'
        return {'op': 'open', 'order': rng.choice(['mr', 'rm'])}
    if not st.accepted or st.n >= c['steps']:
        return None
    st.n += 1
    spec = st.spec
    keys = st.keys or ['?']
    k = rng.randrange(100)
    sel = rng.choice([['all'], ['all'], ['t', rng.randrange(spec['nt'])],
                      ['tk', rng.randrange(spec['nt']), rng.randrange(max(1, spec['nz']))]])
    if spec['fmt'] != 'temperature' and rng.random() < 0.12:
        # the record reader's own iterators, consumed piecewise between other accesses
        if st.it is None or rng.random() < 0.25:
            return {'op': 'iter_start', 'which': rng.choice(['items', 'values'])}
        return {'op': 'iter_next', 'n': rng.randrange(1, 4)}
    if k >= 92 and not st.replaced:
        st.replaced = True
        return {'op': 'replace', 'spec': gen_spec(rng, spec['fmt'])}
    if k < 38:
        return {'op': 'var', 'reader': rng.choice(['m', 'r', 'r']),
                'key': rng.choice(keys), 'sel': sel}
    if k < 62 and spec['fmt'] != 'temperature':
        return {'op': 'rec', 'how': rng.choice(['seekandread', 'seek+read']),
                't': rng.randrange(spec['nt']), 'k': rng.randrange(1, spec['nz'] + 1),
                'j': rng.randrange(4)}
    if k < 72:
        return {'op': 'times', 'reader': rng.choice(['m', 'r'])}
    if k < 78:
        return {'op': 'dims'}
    if k < 82:
        return {'op': 'collect'}
    if k < 86 and st.n > c['steps'] // 2:
        return {'op': 'close_record'}
    if rng.random() < 0.10:
        # disk fault: the k-th read() of the record reader's file raises once
        # (EIO / EINTR); the interrupted access is then retried
        return {'op': 'faulty_read', 'fail_at': rng.choice([1, 1, 2, 3, 4, 6, 9, 14, 25]),
                'key': rng.choice(keys),
                'errno': rng.choice(['EIO', 'EINTR', 'short'])}
    if rng.random() < 0.06:
        # the path is given other content (or the process changes directory and the
        # path was relative) after the readers were constructed and before their
        # first data access: a reader presents the file it opened
        oth = dict(spec)
        oth['nt'] = spec['nt'] + 1
        oth['nx'] = spec['nx'] + 1          # other layout: other values at every offset
        oth['stime'] = float((int(spec['stime']) + 3) % 24)
        if 'species' in oth and len(oth['species']) > 1:
            oth['species'] = oth['species'][1:] + oth['species'][:1]
        return {'op': 'swap_under', 'spec': oth, 'how': rng.choice(['replace', 'chdir'])}
    if rng.random() < 0.06:
        # readers also accept an open file object, which they only borrow: it is
        # handed to one reader after another (earlier readers dropped and collected)
        return {'op': 'fileobj', 'order': rng.choice(['m', 'r', 'rr', 'mr', 'rm', 'rrm']),
                'collect': rng.random() < 0.7}
    if rng.random() < 0.08:
        # readers accept a path, a file object or a RecordFile; here a RecordFile
        # that was already used (advanced by some records) is handed to a new reader
        return {'op': 'shared_handle', 'advance': rng.randrange(0, 7),
                'read': rng.random() < 0.5}
    if k < 92:
        # another file of the same layout (same grid and counts, other species
        # order / other values) is opened in between
        sib = dict(spec)
        if 'species' in sib:
            sp = list(sib['species'])
            rng.shuffle(sp)
            if len(sp) > 1 and sp == sib['species']:
                sp = sp[1:] + sp[:1]
            sib['species'] = sp
        sib['stime'] = float((int(spec['stime']) + 1) % 24)
        return {'op': 'sibling', 'spec': sib, 'reader': rng.choice(['m', 'r', 'mr'])}

    return {'op': 'var', 'reader': 'r', 'key': rng.choice(keys), 'sel': sel}


def _reject(st, why):
    st.accepted = False
    k = '%s:%s' % (st.spec['fmt'], why)
    st.stats['record_reader_rejects'][k] = st.stats['record_reader_rejects'].get(k, 0) + 1


def _guard(fn):
    """run fn under a CPU-time watchdog -> (value, cpu seconds)"""
    def handler(signum, frame):
        raise Timeout()
    old = signal.signal(signal.SIGVTALRM, handler)
    signal.setitimer(signal.ITIMER_VIRTUAL, ACCESS_CAP_S)
    t0 = time.process_time()
    try:
        return fn(), time.process_time() - t0
    finally:
        signal.setitimer(signal.ITIMER_VIRTUAL, 0)
        signal.signal(signal.SIGVTALRM, old)


def _full_read_child(st, wfd):
    """fresh open + full read of both families, in a child under a CPU cap"""
    resource.setrlimit(resource.RLIMIT_CPU, (CPU_CAP_S, CPU_CAP_S + 1))
    out = {}
    fmt, spec, path = st.spec['fmt'], st.spec, st.path
    for fam in ('m', 'r'):
        os.write(wfd, (json.dumps({'stage': fam}) + '\n').encode())
        try:
            f = open_reader(fam, fmt, path, spec)
        except BaseException as e:
            out[fam] = 'raised:' + type(e).__name__
            continue
        # a reader that opened the file must finish every operation, by
        # returning or by raising: the time listing is exercised even when
        # reading the data raised
        res = 'ok'
        try:
            for k in data_keys(f):
                np.array(f.variables[k][...])
        except BaseException as e:
            res = 'raised:' + type(e).__name__
        try:
            times_of(fam, f, fmt)
        except Timeout:
            os.write(wfd, (json.dumps({'unbounded': fam}) + '\n').encode())
            os._exit(0)
        except BaseException as e:
            if res == 'ok':
                res = 'raised:' + type(e).__name__
        out[fam] = res
    os.write(wfd, (json.dumps({'done': out}) + '\n').encode())
    os._exit(0)


def apply(st, op):
    try:
        return _apply(st, op)
    except _Known:
        return {'note': 'known finding met'}


def _apply(st, op):
    w = st.w
    o = op['op']
    obs = {}
    if o == 'mkfile':
        st.spec = op['spec']
        st.path = w.path('f.' + st.spec['fmt'])
        with open(st.path, 'wb') as fh:
            fh.write(build(st.spec))
        seams.stamp_file(st.path)
        st.stats['files'] += 1
        f = st.spec['fmt']
        st.stats['by_format'][f] = st.stats['by_format'].get(f, 0) + 1
        return {'size': os.path.getsize(st.path)}
    if st.spec is None:
        return {'note': 'noop'}
    fmt, spec, path = st.spec['fmt'], st.spec, st.path
    desc = '%s nx=%d ny=%d nz=%d nt=%d start %d %02d:00%s' % (
        fmt, spec['nx'], spec['ny'], spec['nz'], spec['nt'], spec['sdate'], int(spec['stime']),
        (' ' + spec.get('name', '')) if fmt == 'uamiv' else '')
    if o == 'terminates':
        r, wfd = os.pipe()
        pid = os.fork()
        if pid == 0:
            os.close(r)
            try:
                _full_read_child(st, wfd)
            finally:
                os._exit(1)
        os.close(wfd)
        buf = b''
        while True:
            b = os.read(r, 65536)
            if not b:
                break
            buf += b
        os.close(r)
        _, status = os.waitpid(pid, 0)
        lines = [json.loads(x) for x in buf.decode().split('\n') if x.strip()]
        st.stats['evaluations'] += 1
        done = [x for x in lines if 'done' in x]
        if not done:
            stage = [x['stage'] for x in lines if 'stage' in x]
            fam = stage[-1] if stage else '?'
            killed = os.WIFSIGNALED(status) and os.WTERMSIG(status) in (signal.SIGXCPU, signal.SIGKILL)
            unb = [x['unbounded'] for x in lines if 'unbounded' in x]
            if unb:
                fam = unb[0]
            if killed or unb:
                full = {'format': fmt, 'family': fam, 'invariant': 'reader-does-not-terminate',
                        'crosses_year_end': _crosses_year_end(spec),
                        'cells_le_3': spec['nx'] * spec['ny'] <= 3,
                        'step': step_class(spec),
                        'ends_past_midnight': _ends_past_midnight(spec)}
                detail = ('%s reader did not finish opening and reading a valid file '
                          '%s: %s' % (
                              {'m': 'memory-mapped', 'r': 'record'}.get(fam, fam),
                              ('(its time listing does not end: more than %d times)' % TIMES_CAP)
                              if unb else 'within %d s of CPU time' % CPU_CAP_S, desc))
                kn = w.known_match(full)
                if kn is not None:
                    kh = st.stats['known_hits'].setdefault(kn, {'n': 0, 'example': None})
                    kh['n'] += 1
                    kh['example'] = kh['example'] or detail[:400]
                    st.probe = {'m': 'ok', 'r': 'known-hang'}
                    return {'note': 'known finding met'}
                full.pop('invariant')
                raise Violation('reader-does-not-terminate', detail, sig=full)
            raise HarnessError('termination probe died: status %r' % status)
        obs.update(done[0]['done'])
        st.probe = done[0]['done']
        return obs
    if o == 'open':
        st.accepted = True
        st.keys = []
        for fam in op['order']:
            try:
                f, _ = _guard(lambda: open_reader(fam, fmt, path, spec))
            except Timeout:
                raise Violation('reader-does-not-terminate', 'open: ' + desc,
                                sig={'format': fmt, 'family': fam})
            except BaseException as e:
                if fam == 'r':
                    _reject(st, 'open:' + type(e).__name__)
                else:
                    st.accepted = False
                    st.stats['record_reader_rejects']['memmap:' + fmt + ':' + type(e).__name__] = \
                        st.stats['record_reader_rejects'].get(
                            'memmap:' + fmt + ':' + type(e).__name__, 0) + 1
                return {'note': 'rejected ' + type(e).__name__}
            if fam == 'm':
                st.m = f
            else:
                st.r = f
        if getattr(st, 'probe', {}).get('r') != 'ok' or getattr(st, 'probe', {}).get('m') != 'ok':
            # one family does not accept (read) this file: the property makes
            # no claim about it
            _reject(st, 'read:' + str(getattr(st, 'probe', {}).get('r')))
            return {'note': 'not accepted by both'}
        st.keys = [k for k in data_keys(st.m) if k in list(st.r.variables.keys())]
        st.stats['accepted_files'] += 1
        st.stats['nontrivial'] = True
        return {'keys': st.keys}
    if not st.accepted:
        return {'note': 'noop'}

    def fresh(fam):
        # a reader without history; it read this file completely in the
        # termination probe, so a failure here is a finding, not a harness error
        try:
            return open_reader(fam, fmt, path, spec)
        except BaseException as e:
            raise Violation('fresh-reader-raised-on-accepted-file',
                            '%s: a fresh %s reader raised %s: %s although the same file was '
                            'opened and read completely at the start of the run' % (
                                desc, fam, type(e).__name__, e),
                            sig={'format': fmt, 'family': fam, 'error': type(e).__name__})

    def viol(inv, detail, **sig):
        sp = sig.pop('about', None) or spec       # the file the finding is about
        pth = sig.pop('about_path', None) or path
        dd = deviating_detail(fmt, sp, pth)
        full = dict(sig, format=fmt, crosses_year_end=_crosses_year_end(sp),
                    cells_le_3=sp['nx'] * sp['ny'] <= 3, invariant=inv,
                    step=step_class(sp), fresh_reader_off_truth=deviating(fmt, sp, pth, dd),
                    # how far the fresh record reader is off: its time listing only,
                    # or step count / values as well
                    record_reader_off=dd.get('r', '?'),
                    ends_past_midnight=_ends_past_midnight(sp))
        kn = w.known_match(full)
        if kn is not None:
            kh = st.stats['known_hits'].setdefault(kn, {'n': 0, 'example': None})
            kh['n'] += 1
            if kh['example'] is None:
                kh['example'] = ('%s: %s' % (desc, detail))[:400]
            raise _Known()
        full.pop('invariant')
        raise Violation(inv, '%s: %s' % (desc, detail), sig=full)

    st.stats['evaluations'] += 1
    if o == 'var':
        fam = op['reader']
        other = 'r' if fam == 'm' else 'm'
        f = st.m if fam == 'm' else st.r
        st.stats['accesses'] += 1

        def access():
            return np.array(select(f.variables[op['key']][...], op['sel']))
        try:
            got, cpu = _guard(access)
            st.stats['max_access_cpu_s'] = max(st.stats['max_access_cpu_s'], round(cpu, 3))
        except Timeout:
            viol('reader-does-not-terminate', 'access %r on the %s reader' % (op, fam), family=fam)
        except BaseException as e:
            if fam == 'r' and st.r_closed:
                st.stats['after_close'] += 1
                return {'note': 'raised after close: ' + type(e).__name__}
            k = '%s:%s' % (fam, type(e).__name__)
            st.stats['raised_in_access'][k] = st.stats['raised_in_access'].get(k, 0) + 1
            if fam == 'm':
                viol('memmap-reader-raised-on-accepted-file',
                     '%s on %r' % (type(e).__name__, op), error=type(e).__name__)
            viol('record-reader-raised-after-history',
                 'the record reader read this file completely when fresh but %s: %s on '
                 'access %r after earlier accesses' % (type(e).__name__, e, op),
                 error=type(e).__name__)
        exp = np.array(select(fresh(other).variables[op['key']][...], op['sel']))
        if not squeeze_eq(got, exp):
            viol('readers-disagree',
                 '%s of %s: %s reader (after %d earlier steps) gives shape %s, a fresh %s '
                 'reader %s; first values %s vs %s' % (
                     op['sel'], op['key'], 'memmap' if fam == 'm' else 'record', w.step,
                     got.shape, 'record' if fam == 'm' else 'memmap', exp.shape,
                     np.asarray(got).ravel()[:3].tolist(), np.asarray(exp).ravel()[:3].tolist()),
                 what='data', family=fam)
    elif o == 'rec':
        # raw record access through the record reader's cursor
        if st.r is None:
            return {'note': 'noop'}
        st.stats['raw_record_reads'] += 1
        tl = list(fresh('r').timerange())
        if not tl:
            viol('readers-disagree', 'a fresh record reader lists no time at all',
                 what='tflag', family='r')
        d, t = tl[op['t'] % len(tl)]
        k = op['k']
        m = fresh('m')
        ti = op['t'] % len(tl)
        j = op['j']
        nm = len(m.dimensions['TSTEP']) if 'TSTEP' in m.dimensions else None
        if nm is not None and nm != len(tl):
            viol('readers-disagree', 'a fresh record reader lists %d times, a fresh memmap '
                 'reader has %d steps' % (len(tl), nm), what='dimension', family='-')
        if fmt == 'uamiv':
            names = [s.strip() for s in st.r.spcnames]
            spc = j % len(names)
            args = (d, t, spc, k)
            exp = np.array(m.variables[names[spc]][ti, k - 1])
            skip = 11
        elif fmt == 'height_pressure':
            hp = j % 2
            args = (d, t, k, hp)
            exp = np.array(m.variables[['HGHT', 'PRES'][hp]][ti, k - 1])
            skip = 2
        elif fmt == 'wind':
            uv = j % 2
            args = (d, t, k, uv + 1)      # 0 = time header, 1 = U, 2 = V
            exp = np.array(m.variables[['U', 'V'][uv]][ti, k - 1])
            skip = 0
        else:
            args = (d, t, k)
            key = data_keys(m)[0]
            exp = np.array(m.variables[key][ti, k - 1])
            skip = 2

        def access():
            if op['how'] == 'seekandread':
                return st.r.seekandread(*args)
            st.r.seek(*args)
            return st.r.read()
        try:
            vals, cpu = _guard(access)
        except Timeout:
            viol('reader-does-not-terminate', 'raw record read %r' % (op,), family='r')
        except BaseException as e:
            if st.r_closed:
                st.stats['after_close'] += 1
                return {'note': 'raised after close'}
            k2 = 'rec:%s' % type(e).__name__
            st.stats['raised_in_access'][k2] = st.stats['raised_in_access'].get(k2, 0) + 1
            return {'note': 'raised ' + type(e).__name__}
        got = np.array(vals[skip:], dtype='f4') if not isinstance(vals, np.ndarray) \
            else np.asarray(vals, dtype='f4').ravel()[skip:]
        if got.size != exp.size or got.tobytes() != np.asarray(exp, 'f4').ravel().tobytes():
            viol('readers-disagree',
                 'raw record (%s) via %s: record reader returns %s..., the memmap reader holds '
                 '%s... there' % (', '.join(str(a) for a in args), op['how'],
                                  got.ravel()[:3].tolist(), np.asarray(exp).ravel()[:3].tolist()),
                 what='raw-record', family='r')
    elif o == 'times':
        fam = op['reader']
        f = st.m if fam == 'm' else st.r
        try:
            got, _ = _guard(lambda: times_of(fam, f, fmt))
        except Timeout:
            viol('reader-does-not-terminate', 'time flags', family=fam)
        except BaseException as e:
            if fam == 'r' and st.r_closed:
                return {'note': 'raised after close'}
            viol('time-flags-raised', '%s reader: %s: %s' % (fam, type(e).__name__, e),
                 family=fam, error=type(e).__name__)
        other = 'r' if fam == 'm' else 'm'
        exp = times_of(other, fresh(other), fmt)
        if got != exp:
            viol('readers-disagree', 'time flags: %s reader %s, fresh %s reader %s' % (
                fam, got, other, exp), what='tflag', family=fam)
    elif o == 'dims':
        for dk in ('TSTEP', 'LAY', 'ROW', 'COL'):
            if dk in st.m.dimensions and dk in st.r.dimensions:
                a, b = len(st.m.dimensions[dk]), len(st.r.dimensions[dk])
                if a != b:
                    viol('readers-disagree', 'dimension %s: memmap %d, record %d' % (dk, a, b),
                         what='dimension', family='-')
    elif o == 'iter_start':
        if st.r is None or st.r_closed:
            return {'note': 'noop'}
        try:
            st.it_keys = list(fresh('r').keys())
            st.it = iter(getattr(st.r, op['which'])())
            st.it_pos = 0
            st.it_which = op['which']
        except BaseException as e:
            st.it = None
            return {'note': 'raised ' + type(e).__name__}
    elif o == 'iter_next':
        if st.it is None or st.r is None:
            return {'note': 'noop'}
        m = fresh('m')
        tl = list(fresh('r').timerange())
        for _ in range(op['n']):
            if st.it_pos >= len(st.it_keys):
                st.it = None
                break
            key = st.it_keys[st.it_pos]
            try:
                item, _cpu = _guard(lambda: next(st.it))
            except Timeout:
                viol('reader-does-not-terminate', 'iterator %s' % st.it_which, family='r')
            except StopIteration:
                st.it = None
                break
            except BaseException as e:
                st.it = None
                if st.r_closed:
                    return {'note': 'raised after close'}
                viol('record-reader-raised-after-history',
                     'iterator %s() raised %s: %s at item %d after interleaved accesses' % (
                         st.it_which, type(e).__name__, e, st.it_pos), error=type(e).__name__)
            st.it_pos += 1
            vals = item[len(key):] if st.it_which == 'items' else item
            if st.it_which == 'items' and tuple(item[:len(key)]) != tuple(key):
                viol('readers-disagree', 'items() yields key %s where %s is due' % (
                    item[:len(key)], key), what='iterator-key', family='r')
            ti = [i for i, dt in enumerate(tl) if tuple(dt) == tuple(key[:2])]
            if not ti:
                continue
            ti = ti[0]
            exp = []
            if fmt == 'uamiv':
                names = [x.strip() for x in st.r.spcnames]
                exp = [np.array(m.variables[names[key[2]]][ti, key[3] - 1])]
                got = [np.array(vals[0] if st.it_which == 'items' else vals)[11:]]
            elif fmt == 'height_pressure':
                exp = [np.array(m.variables['HGHT'][ti, key[2] - 1]),
                       np.array(m.variables['PRES'][ti, key[2] - 1])]
                got = [np.array(v)[2:] for v in vals]
            elif fmt == 'wind':
                exp = [np.array(m.variables['U'][ti, key[2] - 1]),
                       np.array(m.variables['V'][ti, key[2] - 1])]
                got = [np.array(v) for v in vals]
            else:
                exp = [np.array(m.variables[data_keys(m)[0]][ti, key[2] - 1])]
                got = [np.array(vals[0] if st.it_which == 'items' else vals)[2:]]
            for g_, e_ in zip(got, exp):
                if np.asarray(g_, 'f4').ravel().tobytes() != np.asarray(e_, 'f4').ravel().tobytes():
                    viol('readers-disagree',
                         '%s() item %d (key %s): record reader yields %s..., the memmap reader '
                         'holds %s... there' % (st.it_which, st.it_pos - 1, key,
                                                np.asarray(g_).ravel()[:3].tolist(),
                                                np.asarray(e_).ravel()[:3].tolist()),
                         what='iterator', family='r')
    elif o == 'faulty_read':
        # An I/O fault inside a variable access of an (already open) record reader.
        # The property is about valid files and says nothing about faults, so the
        # relaxation is deliberate and narrow: only an access that RAISED (the
        # reader reported the failure) is followed up, and the follow-up is the
        # property itself: a later access on the same reader must again expose
        # the file's data (or raise) - never a half-filled variable.
        import errno as _errno
        import io
        from PseudoNetCDF.camxfiles import Readers

        class FaultyFile(io.FileIO):
            """a real file whose k-th read after arm() fails once"""
            def __init__(self, p):
                io.FileIO.__init__(self, p, 'rb')
                self._k = None
                self._n = 0
                self.fired = False

            def arm(self, k):
                self._k = k
                self._n = 0

            def read(self, size=-1):
                if self._k is not None and not self.fired:
                    self._n += 1
                    if self._n == self._k:
                        self.fired = True
                        raise OSError(_errno.EIO, 'injected EIO')
                return io.FileIO.read(self, size)
        ff = FaultyFile(path)
        try:
            cls = getattr(Readers, fmt)
            r2 = cls(ff) if fmt == 'uamiv' else cls(ff, spec['ny'], spec['nx'])
            key = op['key'] if op['key'] in list(r2.variables.keys()) else data_keys(r2)[0]
        except BaseException as e:
            return {'note': 'open raised ' + type(e).__name__}
        ff.arm(op['fail_at'])
        first = None
        try:
            first, _ = _guard(lambda: np.array(r2.variables[key][...]))
        except Timeout:
            viol('reader-does-not-terminate', 'variable read with an injected read fault',
                 family='r')
        except BaseException as e:
            first = e
        if not ff.fired:
            return {'note': 'fault not reached'}
        w.fault('read_fault_EIO_inside_access')
        if not isinstance(first, BaseException):
            w.probe('read_fault_swallowed_by_reader')
            return {'note': 'fault swallowed (not judged)'}
        w.probe('read_fault_reported_then_retried')
        exp = np.array(fresh('m').variables[key][...])
        try:
            second, _ = _guard(lambda: np.array(r2.variables[key][...]))
        except Timeout:
            viol('reader-does-not-terminate', 'retry after a read fault', family='r')
        except BaseException as e:
            return {'note': 'retry raised ' + type(e).__name__}
        if not squeeze_eq(second, exp):
            viol('readers-disagree',
                 'retry after a reported read fault (EIO at read #%d of the access, which raised '
                 '%s): %s of the record reader now holds %s... where the memmap reader holds '
                 '%s...' % (op['fail_at'], type(first).__name__, key,
                            np.asarray(second).ravel()[-3:].tolist(), exp.ravel()[-3:].tolist()),
                 what='data-after-read-fault', family='r')
    elif o == 'shared_handle':
        from PseudoNetCDF.camxfiles.FortranFileUtil import OpenRecordFile
        from PseudoNetCDF.camxfiles import Readers
        try:
            rf = OpenRecordFile(path)
            for _ in range(op['advance']):
                if op.get('read'):
                    try:
                        rf.read('i')
                    except BaseException:
                        rf.next()
                else:
                    rf.next()
        except BaseException as e:
            return {'note': 'handle raised ' + type(e).__name__}
        w.fault('reader_built_on_used_handle')
        try:
            cls = getattr(Readers, fmt)
            r2, _ = _guard(lambda: cls(rf) if fmt == 'uamiv' else cls(rf, spec['ny'], spec['nx']))
            got = {k: np.array(r2.variables[k][...]) for k in data_keys(r2)}
            gt = times_of('r', r2, fmt)
        except Timeout:
            viol('reader-does-not-terminate', 'reader on a used RecordFile handle', family='r')
        except BaseException as e:
            return {'note': 'not accepted: ' + type(e).__name__}
        m = fresh('m')
        for dk in ('TSTEP', 'LAY', 'ROW', 'COL'):
            if dk in m.dimensions and dk in r2.dimensions and \
                    len(m.dimensions[dk]) != len(r2.dimensions[dk]):
                viol('readers-disagree', 'record reader built on a RecordFile that had been '
                     'advanced by %d records: dimension %s is %d, memmap reader %d' % (
                         op['advance'], dk, len(r2.dimensions[dk]), len(m.dimensions[dk])),
                     what='dimension-shared-handle', family='r')
        for k2, a in got.items():
            if k2 in m.variables.keys() and not squeeze_eq(a, np.array(m.variables[k2][...])):
                viol('readers-disagree', 'record reader built on a used RecordFile handle: %s '
                     'differs from the memmap reader' % k2, what='data-shared-handle', family='r')
        if gt != times_of('m', m, fmt):
            viol('readers-disagree', 'record reader built on a used RecordFile handle: time '
                 'flags %s, memmap %s' % (gt, times_of('m', m, fmt)),
                 what='tflag-shared-handle', family='r')
    elif o == 'fileobj':
        from PseudoNetCDF.camxfiles import Memmaps, Readers
        fh = open(path, 'rb')
        w.fault('reader_built_on_borrowed_file_object')
        try:
            for i, fam in enumerate(op['order']):
                mod = Memmaps if fam == 'm' else Readers
                cls = getattr(mod, fmt)
                try:
                    def mk():
                        f2 = cls(fh) if fmt == 'uamiv' else cls(fh, spec['ny'], spec['nx'])
                        return {k: np.array(f2.variables[k][...]) for k in data_keys(f2)}
                    got, _ = _guard(mk)
                except Timeout:
                    viol('reader-does-not-terminate', 'reader on a borrowed file object',
                         family=fam)
                except BaseException as e:
                    if i == 0:
                        # this family does not take file objects for this format
                        obs[fam] = 'not accepted: ' + type(e).__name__
                        continue
                    # the same object was accepted a moment ago: a reader that
                    # borrowed it must not have closed or consumed it
                    if fh.closed:
                        viol('readers-disagree',
                             'an open file object handed to a %s reader was closed by an earlier '
                             'reader that had only borrowed it (%s: %s)' % (
                                 {'m': 'memmap', 'r': 'record'}[fam], type(e).__name__, e),
                             what='borrowed-handle-closed', family=fam)
                    obs[fam] = 'raised ' + type(e).__name__
                    continue
                ref = fresh(fam)
                for k, a in got.items():
                    if k in ref.variables.keys() and not squeeze_eq(a, np.array(ref.variables[k][...])):
                        viol('readers-disagree',
                             '%s reader built on an open file object (reader %d on that object): %s '
                             'differs from the same family opened by path' % (
                                 {'m': 'memmap', 'r': 'record'}[fam], i + 1, k),
                             what='data-file-object', family=fam)
                got = None
                if op.get('collect'):
                    seams.GC.collect(2)
        finally:
            try:
                fh.close()
            except BaseException:
                pass
    elif o == 'swap_under':
        if deviating(fmt, spec, path) != 'none':
            # only files both fresh readers present as written (the recorded
            # limitations of the record readers are judged elsewhere)
            return {'note': 'noop'}
        orig = open(path, 'rb').read()
        other = build(op['spec'])
        times, arrays = _truth(fmt, spec)
        tb = set(np.asarray(a, 'f4').tobytes() for a in arrays)
        cwd = os.getcwd()
        try:
            if op['how'] == 'chdir':
                os.chdir(os.path.dirname(path))
                name = os.path.basename(path)
                rd = {fam: open_reader(fam, fmt, name, spec) for fam in 'mr'}
                els = w.path('elsewhere')
                os.makedirs(els, exist_ok=True)
                with open(os.path.join(els, name), 'wb') as fh:
                    fh.write(other)
                seams.stamp_file(os.path.join(els, name))
                os.chdir(els)
                w.fault('cwd_changed_after_open')
            else:
                rd = {fam: open_reader(fam, fmt, path, spec) for fam in 'mr'}
                with open(path + '.tmp', 'wb') as fh:
                    fh.write(other)
                os.replace(path + '.tmp', path)
                seams.stamp_file(path)
                w.fault('path_replaced_after_open')
            for fam in 'mr':
                f2 = rd[fam]
                try:
                    def chk():
                        bad = [k for k in data_keys(f2)
                               if np.asarray(f2.variables[k][...], 'f4').tobytes() not in tb]
                        return bad, times_of(fam, f2, fmt)
                    (bad, tl), _ = _guard(chk)
                except Timeout:
                    viol('reader-does-not-terminate', 'first access after the path changed',
                         family=fam)
                except BaseException as e:
                    obs[fam] = 'raised ' + type(e).__name__
                    continue
                if bad or tl != times:
                    viol('readers-disagree',
                         '%s reader opened before the path %s: its first access presents %s, '
                         'not the file it opened' % (
                             {'m': 'memmap', 'r': 'record'}[fam],
                             'was given other content' if op['how'] == 'replace' else
                             'resolved elsewhere (relative path, chdir)',
                             ('other data in ' + ','.join(bad)) if bad else 'times %s' % (tl[:3],)),
                         what='data-after-path-changed', family=fam)
        finally:
            os.chdir(cwd)
            if op['how'] != 'chdir':
                with open(path + '.tmp', 'wb') as fh:
                    fh.write(orig)
                os.replace(path + '.tmp', path)
                seams.stamp_file(path)
    elif o == 'collect':
        seams.GC.collect(2)
        w.fault('gc_between')
    elif o == 'sibling':
        sp2 = op['spec']
        p2 = w.path('sibling.' + fmt)
        with open(p2 + '.tmp', 'wb') as fh:
            fh.write(build(sp2))
        os.replace(p2 + '.tmp', p2)
        seams.stamp_file(p2)
        w.fault('sibling_file_opened')
        res = {}
        for fam in op['reader']:
            try:
                g, _ = _guard(lambda: open_reader(fam, fmt, p2, sp2))
                res[fam] = {k: np.array(g.variables[k][...]) for k in data_keys(g)}
            except Timeout:
                viol('reader-does-not-terminate', 'sibling file', family=fam, about=sp2, about_path=p2)
            except BaseException as e:
                res[fam] = None
        # the sibling itself must be read like a fresh process would read it:
        # compare with the producer's content through the OTHER family, fresh
        for fam, got in res.items():
            if got is None:
                continue
            other = 'r' if fam == 'm' else 'm'
            try:
                g2 = open_reader(other, fmt, p2, sp2)
                exp = {k: np.array(g2.variables[k][...]) for k in data_keys(g2)}
            except BaseException:
                continue
            for k in got:
                if k in exp and not squeeze_eq(got[k], exp[k]):
                    viol('readers-disagree',
                         'second file of the same layout (%s): %s reader gives %s..., the other '
                         'family %s...' % (k, fam, got[k].ravel()[:3].tolist(),
                                           exp[k].ravel()[:3].tolist()),
                         what='data-second-file', family=fam, about=sp2, about_path=p2)
    elif o == 'replace':
        # the file at the SAME path is replaced by a different one and reopened
        st.m = None
        st.r = None
        seams.GC.collect(2)
        sp2 = op['spec']
        with open(path + '.tmp', 'wb') as fh:
            fh.write(build(sp2))
        os.replace(path + '.tmp', path)
        seams.stamp_file(path)
        w.fault('file_replaced_at_same_path')
        st.spec = sp2
        st.r_closed = False
        st.it = None
        try:
            st.m = open_reader('m', fmt, path, sp2)
            st.r, _ = _guard(lambda: open_reader('r', fmt, path, sp2))
            # full read of both must succeed for the file to count as accepted
            for fam, f in (('m', st.m), ('r', st.r)):
                _guard(lambda: [np.array(f.variables[k][...]) for k in data_keys(f)])
                _guard(lambda: times_of(fam, f, fmt))
            st.keys = [k for k in data_keys(st.m) if k in list(st.r.variables.keys())]
        except Timeout:
            st.accepted = False
            return {'note': 'replacement not readable in time (not accepted)'}
        except BaseException as e:
            st.accepted = False
            return {'note': 'replacement not accepted: ' + type(e).__name__}
        # dimension lengths must follow the file, not the path
        for dk in ('TSTEP', 'LAY', 'ROW', 'COL'):
            if dk in st.m.dimensions and dk in st.r.dimensions:
                a, b = len(st.m.dimensions[dk]), len(st.r.dimensions[dk])
                if a != b:
                    viol('readers-disagree', 'after the file at the same path was replaced: '
                         'dimension %s: memmap %d, record %d' % (dk, a, b),
                         what='dimension', family='-', about=sp2)
    elif o == 'close_record':
        if st.r is not None and not st.r_closed:
            try:
                st.r.close()
            except BaseException:
                try:
                    st.r.rffile.infile.close()
                except BaseException:
                    pass
            st.r_closed = True
            w.fault('close')
            # the memmap reader must be unaffected
            for k in st.keys:
                a = np.array(st.m.variables[k][...])
                b = np.array(fresh('m').variables[k][...])
                if a.tobytes() != b.tobytes():
                    viol('memmap-affected-by-close', 'variable %s changed' % k, what='data')
    else:
        raise HarnessError('unknown op %r' % (op,))
    w.abstract(o, op.get('reader', '-'), str(op.get('sel', op.get('how', '-'))[0]),
               'closed' if st.r_closed else 'open')
    return obs


def finish(st):
    pass


def stats(st):
    return st.stats


def simplify_op(op):
    out = []
    if op.get('op') == 'mkfile':
        sp = op['spec']
        for k in ('nt', 'nz', 'nx', 'ny'):
            if sp[k] > 1:
                out.append(dict(op, spec=dict(sp, **{k: sp[k] - 1})))
        if 'species' in sp and len(sp['species']) > 1:
            out.append(dict(op, spec=dict(sp, species=sp['species'][:1])))
    return out
