"""C15 — format auto-detection depends only on the file, not on history.

The "schedule" here is the history of the process: which files were opened
before (auto / explicit / failing / multi-file / repeated), which readers were
registered, when the collector ran.  The oracle is a *memory-less reference*:
a server forked from the run child before any open; every probe is answered by
a grandchild forked from that pristine server (same code, same registrations
replayed in order, no other history).  The system under test must give the
same answer after any history.  Second clause: for formats that identify
themselves by content, auto-detected presentation == explicit-format
presentation.
"""
import json
import os
import select

import numpy as np

from .core import seams, snapshot
from .core.world import Violation, HarnessError
from . import files
from .refcodec import camx, icartt
from .refcodec import bpch as bpchcodec

NAME = 'hist'
PROPERTIES = ['C15']

# content kind -> (conventional suffixes, explicit format or None,
#                  identifies itself by content?)
KINDS = {
    'uamiv': (['uamiv', 'avrg', 'emis'], 'uamiv', True),
    'boundary': (['lateral_boundary', 'bc'], 'lateral_boundary', True),
    'one3d': (['humidity', 'vertical_diffusivity', 'one3d', 'kv'], None, False),
    'icartt': (['ffi1001', 'ict'], 'ffi1001', True),
    'nc3': (['nc', 'ncf'], 'netcdf', True),
    'nc4': (['nc', 'nc4'], 'netcdf', True),
    'ioapi_nc': (['ncf', 'nc', 'ioapi'], 'ioapi', True),
    'temperature': (['temperature'], None, False),
    'cloud_rain': (['cloud_rain', 'cr'], None, False),
    'wind': (['wind'], None, False),
    'height_pressure': (['height_pressure', 'zp'], None, False),
    'bpch': (['bpch'], None, False),
    'bpch_bx': (['bpch', 'bxhght.bpch'], None, False),
    'bpch_unl': (['bpch'], None, False),
    'landuse': (['landuse', 'lu'], None, False),
    'usr': (['usr'], None, False),
    'garbage': (['txt', 'dat'], None, False),
    'empty': (['bin'], None, False),
}
MISLEADING = ['csv', 'bpch', 'uamiv', 'nc', 'humidity', 'ffi1001', 'temperature',
              'wind', 'landuse', 'ioapi', 'griddesc', 'vertical_diffusivity',
              'lateral_boundary', 'netcdf', 'height_pressure', 'usr']
USR_MAGIC = b'USR1'


def gen_config(rng, tier):
    kinds = rng.sample(['uamiv', 'boundary', 'one3d', 'icartt', 'nc3', 'nc4',
                        'ioapi_nc', 'temperature', 'usr', 'garbage', 'empty',
                        'cloud_rain', 'wind', 'height_pressure', 'bpch', 'bpch_bx', 'bpch_unl',
                        'landuse'],
                       rng.randrange(3, 8))
    for must in rng.sample(['uamiv', 'one3d', 'nc3', 'icartt', 'ioapi_nc'], 2):
        if must not in kinds:
            kinds.append(must)
    return {'kinds': kinds,
            'steps': rng.randrange(6, 21) if tier == 'quick' else rng.randrange(6, 41),
            'probes_per_step': rng.choice([1, 2, 3]),
            'repeat_max': rng.choice([1, 3, 10, 50]),
            'w': {'hopen': rng.choice([2, 4, 6]), 'hfail': rng.choice([0, 1, 2]),
                  'hmf': rng.choice([0, 1]), 'register': rng.choice([0, 1, 2]),
                  'collect': rng.choice([0, 1]), 'probe2': rng.choice([1, 2]),
                  # the pool is not static: a path gets other content (in place,
                  # or deleted and created again)
                  'hrewrite': rng.choice([0, 0, 1, 2])},
            'pathlike': rng.choice([0.0, 0.0, 0.3]),
            'clock': 'steady', 'max_steps': 400}


class State(object):
    def __init__(self, world, config):
        self.w = world
        self.c = config
        self.files = {}           # fid -> {'kind','path','name','cls'}
        self.regs = []            # registrations, in order (the model's R)
        self.prologue = None
        self.nsteps = 0
        self.gfid = 0
        self.greg = 0
        self.memo = {}
        self.ref = None
        self.pending = []
        self.named = set()
        self.stats = {'probes': 0, 'probe2': 0, 'history_opens': 0,
                      'ref_queries': 0, 'ref_memo_hits': 0, 'nontrivial': False,
                      'registry_len_start': None, 'registry_len_max': 0,
                      'answers': {}, 'evaluations': 0, 'registry_growth': 0}


# ---------------------------------------------------------------------------
# observation (runs in the system under test AND in the reference grandchild)
# ---------------------------------------------------------------------------
def _qual(c):
    return '%s.%s' % (getattr(c, '__module__', '?'), getattr(c, '__name__', repr(c)))


def observe(path, fmt=None):
    import PseudoNetCDF as pnc
    out = {}
    if fmt is None:
        try:
            r = pnc.getreader(path)
            out['reader'] = _qual(r)
        except BaseException as e:
            out['reader'] = 'EXC:' + type(e).__name__
    try:
        f = pnc.pncopen(path) if fmt is None else pnc.pncopen(path, format=fmt)
        out['cls'] = _qual(type(f))
        try:
            s = snapshot.snap_file(f)
            out['content'] = snapshot.content_digest(s)
            out['dims'] = repr(s['dims'])[:200]
        except BaseException as e:
            out['content'] = 'unreadable:' + type(e).__name__
        try:
            f.close()
        except BaseException:
            pass
    except BaseException as e:
        out['cls'] = 'EXC:' + type(e).__name__
    return out


def make_user_class(reg):
    import PseudoNetCDF as pnc
    name = reg['name']
    kind = reg['kind']
    ns = {}
    if kind == 'magic':
        def isMine(cls, path, *a, **k):
            with open(path, 'rb') as f:
                return f.read(4) == USR_MAGIC
        ns['isMine'] = classmethod(isMine)
    elif kind == 'suffix':
        suf = '.' + reg['suffix']

        def isMine(cls, path, *a, **k):
            return str(path).endswith(suf)
        ns['isMine'] = classmethod(isMine)
    elif kind == 'raising':
        def isMine(cls, path, *a, **k):
            with open(path, 'rb') as f:
                if f.read(4) == USR_MAGIC:
                    return True
            return False
        ns['isMine'] = classmethod(isMine)
    if kind != 'plain':
        def __init__(self, path, *a, **k):
            with open(path, 'rb') as f:
                b = f.read()
            self.createDimension('byte', len(b))
            v = self.createVariable('bytes', 'i', ('byte',))
            v[:] = np.frombuffer(b, dtype='u1').astype('i')
        ns['__init__'] = __init__
    return pnc.core._files.PseudoNetCDFType(name, (pnc.PseudoNetCDFFile,), ns)


# ---------------------------------------------------------------------------
# memory-less reference server
# ---------------------------------------------------------------------------
class RefServer(object):
    def __init__(self):
        self.q_r, self.q_w = os.pipe()
        self.a_r, self.a_w = os.pipe()
        pid = os.fork()
        if pid == 0:
            os.close(self.q_w)
            os.close(self.a_r)
            # do not hold the run child's result pipe (or anything else) open
            keep = {0, 1, 2, self.q_r, self.a_w}
            for fd in range(3, 256):
                if fd not in keep:
                    try:
                        os.close(fd)
                    except OSError:
                        pass
            try:
                self._serve()
            finally:
                os._exit(0)
        os.close(self.q_r)
        os.close(self.a_w)
        self.pid = pid
        self.buf = b''

    def _serve(self):
        rf = os.fdopen(self.q_r, 'r')
        for line in rf:
            q = json.loads(line)
            if q.get('quit'):
                return
            r, w = os.pipe()
            pid = os.fork()
            if pid == 0:
                os.close(r)
                try:
                    seams.limit_cpu(30)
                    for reg in q['regs']:
                        make_user_class(reg)
                    ans = observe(q['path'], q.get('fmt'))
                except BaseException as e:
                    ans = {'error': '%s: %s' % (type(e).__name__, e)}
                try:
                    os.write(w, json.dumps(ans).encode())
                finally:
                    os._exit(0)
            os.close(w)
            chunks = []
            while True:
                b = os.read(r, 65536)
                if not b:
                    break
                chunks.append(b)
            os.close(r)
            os.waitpid(pid, 0)
            data = b''.join(chunks) or b'{"error": "no answer (killed?)"}'
            os.write(self.a_w, data + b'\n')

    def ask(self, regs, path, fmt=None):
        os.write(self.q_w, (json.dumps({'regs': regs, 'path': path, 'fmt': fmt}) + '\n').encode())
        while b'\n' not in self.buf:
            r, _, _ = select.select([self.a_r], [], [], 120)
            if not r:
                raise HarnessError('reference server timed out')
            b = os.read(self.a_r, 65536)
            if not b:
                raise HarnessError('reference server died')
            self.buf += b
        line, self.buf = self.buf.split(b'\n', 1)
        ans = json.loads(line)
        if 'error' in ans:
            raise HarnessError('reference grandchild failed: %s' % ans['error'])
        return ans

    def close(self):
        try:
            os.write(self.q_w, b'{"quit": true}\n')
            os.close(self.q_w)
            os.close(self.a_r)
            os.waitpid(self.pid, 0)
        except Exception:
            pass


def start(world, config):
    st = State(world, config)
    # the reference is forked BEFORE anything is opened in this process
    st.ref = RefServer()
    from PseudoNetCDF._getreader import _readers
    st.stats['registry_len_start'] = len(_readers)
    return st


# ---------------------------------------------------------------------------
def _mkspec(rng, kind):
    if kind == 'uamiv':
        return {'name': rng.choice(['AVERAGE', 'EMISSIONS', 'AIRQUALITY', 'INSTANT']),
                'species': ['O3', 'NO2', 'CO'][:rng.randrange(1, 4)],
                'nx': rng.randrange(2, 5), 'ny': rng.randrange(2, 5),
                'nz': rng.randrange(1, 3), 'nt': rng.randrange(1, 3),
                'sdate': 2002154, 'stime': 0.}
    if kind == 'boundary':
        return {'species': ['O3', 'NO2'][:rng.randrange(1, 3)],
                'nx': rng.randrange(3, 6), 'ny': rng.randrange(3, 6),
                'nz': rng.randrange(1, 3), 'nt': rng.randrange(1, 3),
                'sdate': 2002154, 'stime': 0.}
    if kind in ('cloud_rain', 'wind', 'height_pressure', 'landuse'):
        return {'kind': kind, 'nx': rng.randrange(2, 5), 'ny': rng.randrange(2, 5),
                'nz': rng.randrange(2, 4), 'nt': rng.randrange(2, 4),
                'sdate': 2002154, 'stime': 0., 'nland': 11,
                'extra': rng.choice([[], ['LAI', 'TOPO']])}
    if kind in ('bpch', 'bpch_bx', 'bpch_unl'):
        return {'nt': rng.randrange(1, 3), 'ni': rng.randrange(1, 4), 'nj': rng.randrange(1, 4),
                'nl': rng.randrange(1, 3)}
    if kind in ('one3d', 'temperature'):
        return {'kind': 'humidity' if kind == 'one3d' else 'temperature',
                'nx': rng.randrange(2, 5), 'ny': rng.randrange(2, 5),
                'nz': rng.randrange(2, 4), 'nt': rng.randrange(2, 4),
                'sdate': 2002154, 'stime': 0.}
    if kind == 'icartt':
        return {'nvars': rng.randrange(1, 4), 'nrec': rng.randrange(1, 6),
                'holes': [[0, 0]] if rng.random() < 0.5 else [],
                'dupname': rng.random() < 0.3, 'dashname': rng.random() < 0.4}
    if kind in ('nc3', 'nc4'):
        return files.gen_spec(rng)
    if kind == 'ioapi_nc':
        return files.gen_ioapi_spec(rng)
    if kind == 'usr':
        return {'n': rng.randrange(4, 40)}
    if kind == 'garbage':
        return {'text': rng.choice(['hello world\n1,2,3\n', 'x' * 100, '1001\n', 'CDF'])}
    return {}


def _write(kind, spec, path):
    if kind == 'uamiv':
        camx.write_gridded(path, camx.gridded_from_spec(spec))
    elif kind == 'boundary':
        b, _ = camx.encode_boundary(camx.boundary_from_spec(spec))
        open(path, 'wb').write(b)
    elif kind in ('one3d', 'temperature'):
        b, _ = camx.encode_met(camx.met_from_spec(spec))
        open(path, 'wb').write(b)
    elif kind in ('wind', 'height_pressure'):
        b, _ = camx.encode_met(camx.met_from_spec(spec))
        open(path, 'wb').write(b)
    elif kind == 'cloud_rain':
        b, _ = camx.encode_cloud_rain(camx.cloud_rain_from_spec(spec))
        open(path, 'wb').write(b)
    elif kind == 'landuse':
        b, _ = camx.encode_landuse(camx.landuse_from_spec(spec))
        open(path, 'wb').write(b)
    elif kind in ('bpch', 'bpch_bx', 'bpch_unl'):
        times = []
        cat = 'BXHGHT-$' if kind == 'bpch_bx' else 'IJ-AVG-$'
        tid = 99 if kind == 'bpch_unl' else 1     # 99 has no line in tracerinfo.dat
        for t in range(spec['nt']):
            a = (np.arange(spec['nl'] * spec['nj'] * spec['ni'], dtype='f4') + 1 + 100 * t
                 ).reshape(spec['nl'], spec['nj'], spec['ni']) * 1e-9
            times.append([{'category': cat, 'tracer': tid, 'unit': 'v/v', 'tau0': 100. + t,
                           'tau1': 101. + t, 'start': (3, 4, 1), 'data': a}])
        b, _ = bpchcodec.encode({'modelname': 'GEOS5_47L', 'modelres': (5.0, 4.0),
                                 'halfpolar': 1, 'center180': 1, 'times': times})
        open(path, 'wb').write(b)
        d = os.path.dirname(path)
        if not os.path.exists(os.path.join(d, 'tracerinfo.dat')):
            open(os.path.join(d, 'tracerinfo.dat'), 'w').write(bpchcodec.tracerinfo_text(
                [{'name': 'O3', 'id': 1, 'scale': 1e9, 'unit': 'ppbv'},
                 {'name': 'BXHEIGHT', 'id': 24001, 'scale': 1.0, 'unit': 'm'}]))
            open(os.path.join(d, 'diaginfo.dat'), 'w').write(bpchcodec.diaginfo_text(
                [{'offset': 0, 'category': 'IJ-AVG-$', 'comment': 'stub'},
                 {'offset': 24000, 'category': 'BXHGHT-$', 'comment': 'box heights'}]))
    elif kind == 'icartt':
        open(path, 'wb').write(icartt.encode(icartt.doc_from_spec(spec)))
    elif kind == 'nc3':
        files.write_netcdf(spec, path, 'NETCDF3_CLASSIC')
    elif kind == 'nc4':
        files.write_netcdf(spec, path, 'NETCDF4')
    elif kind == 'ioapi_nc':
        files.write_ioapi_netcdf(spec, path)
    elif kind == 'usr':
        open(path, 'wb').write(USR_MAGIC + bytes(range(spec['n'])))
    elif kind == 'garbage':
        open(path, 'wb').write(spec['text'].encode())
    elif kind == 'empty':
        open(path, 'wb').close()
    else:
        raise HarnessError(kind)


def gen_op(rng, st):
    c = st.c
    if st.prologue is None:
        st.prologue = []
        for kind in c['kinds']:
            spec = _mkspec(rng, kind)
            variants = rng.sample(['conv', 'none', 'mislead', 'upper'], rng.randrange(1, 5))
            for v in variants:
                if v == 'conv':
                    name = 'f%d.%s' % (st.gfid, rng.choice(KINDS[kind][0]))
                elif v == 'upper':
                    # the conventional suffix in capitals (files from other systems)
                    name = 'F%d.%s' % (st.gfid, rng.choice(KINDS[kind][0]).upper())
                elif v == 'none':
                    name = 'f%d' % st.gfid
                else:
                    name = 'f%d.%s' % (st.gfid, rng.choice(MISLEADING))
                st.prologue.append({'op': 'mkfile', 'fid': st.gfid, 'kind': kind,
                                    'spec': spec, 'name': name, 'variant': v})
                st.gfid += 1
            if kind == 'uamiv' and len(spec.get('species', [])) > 1 and rng.random() < 0.6:
                # a second gridded file on the same grid with the same species in
                # another order (another run's output)
                twin = dict(spec, species=spec['species'][1:] + spec['species'][:1])
                st.prologue.append({'op': 'mkfile', 'fid': st.gfid, 'kind': kind, 'spec': twin,
                                    'name': 'f%d%s' % (st.gfid, rng.choice(['.uamiv', '', '.avrg'])),
                                    'variant': 'conv'})
                st.gfid += 1
    if st.prologue:
        return st.prologue.pop(0)
    if st.pending:
        return st.pending.pop(0)
    if st.nsteps >= c['steps']:
        return None
    st.nsteps += 1
    fids = sorted(st.files)
    w = c['w']
    names = [k for k in ['hopen', 'hfail', 'hmf', 'register', 'collect', 'hrewrite']
             if w.get(k, 0) > 0]
    tot = sum(w[k] for k in names)
    x = rng.random() * tot
    name = names[-1]
    for k in names:
        x -= w[k]
        if x <= 0:
            name = k
            break
    if name == 'hopen':
        fid = rng.choice(fids)
        kind = st.files[fid]['kind']
        how = rng.choice(['auto', 'auto', 'auto', 'getreader', 'explicit', 'wrongfmt'])
        op = {'op': 'hopen', 'fid': fid, 'how': how,
              'repeat': rng.choice([1, 1, 2, rng.randrange(1, c['repeat_max'] + 1)])}
        if how == 'explicit':
            op['fmt'] = KINDS[kind][1] or rng.choice(['humidity', 'one3d', 'vertical_diffusivity'])
        if how == 'wrongfmt':
            op['fmt'] = rng.choice(['uamiv', 'netcdf', 'ffi1001', 'csv', 'humidity', 'ioapi'])
        if how == 'explicit' and kind in ('one3d', 'temperature', 'wind', 'height_pressure',
                                         'cloud_rain', 'landuse') and \
                st.files[fid].get('grid', (None, None))[0] and rng.random() < 0.5:
            # the documented way to open the headerless formats: grid given
            op['kw'] = {'rows': st.files[fid]['grid'][0], 'cols': st.files[fid]['grid'][1]}
        elif how in ('explicit', 'wrongfmt') and rng.random() < 0.4:
            # valid reader keywords (a little-endian open, grid hints, projection)
            op['kw'] = rng.choice([{'endian': 'little'}, {'endian': 'big'},
                                   {'rows': 2, 'cols': 3}, {'mode': 'r'},
                                   {'P_ALP': 30.0, 'GDTYP': 2}, {'encoding': 'latin1'},
                                   {'keysubs': {'/': '_', '-': '_'}},
                                   {'keysubs': {'/': '_', '-': '_'}}])
    elif name == 'hrewrite':
        fid = rng.choice(fids)
        kind = rng.choice([k for k in c['kinds'] if k != st.files[fid]['kind']] or c['kinds'])
        op = {'op': 'hrewrite', 'fid': fid, 'kind': kind, 'spec': _mkspec(rng, kind),
              'how': rng.choice(['inplace', 'recreate']),
              # the old content was opened (and the handle dropped) just before
              'opened_before': rng.random() < 0.7}
    elif name == 'hfail':
        op = {'op': 'hfail', 'what': rng.choice(['missing', 'missing.uamiv', 'missing.nc',
                                                   'dir']),
              'how': rng.choice(['auto', 'getreader'])}
    elif name == 'hmf':
        cands = [f for f in fids if st.files[f]['kind'] in ('uamiv', 'ioapi_nc', 'nc3')]
        if not cands:
            cands = fids
        f = rng.choice(cands)
        op = {'op': 'hmf', 'fids': [f, f], 'stackdim': rng.choice(['TSTEP', 'time'])}
    elif name == 'register':
        kind = rng.choice(['plain', 'magic', 'suffix', 'raising'])
        name = 'UserFmt%d' % st.greg
        # a reader whose registered NAME equals a suffix used by pool files:
        # from then on the suffix preference applies to those files
        free = [x for x in ('usr', 'dat', 'txt', 'bin', 'ict', 'kv', 'bc', 'emis', 'avrg', 'nc4')
                if x not in st.named]
        if free and rng.random() < 0.5:
            # prefer a suffix some pool file actually carries
            present = [x for x in free
                       if any(f['name'].lower().endswith('.' + x) for f in st.files.values())]
            name = rng.choice(present if present and rng.random() < 0.8 else free)
            st.named.add(name)
            kind = rng.choice(['magic', 'suffix', 'raising'])
        op = {'op': 'register', 'reg': {'kind': kind, 'name': name,
                                        'suffix': rng.choice(['usr', 'dat', 'nc', 'xyz', 'txt'])}}
        st.greg += 1
    else:
        op = {'op': 'collect'}
    # after every history step: probe a seeded subset of the pool
    k = min(len(fids), c['probes_per_step'])
    for fid in rng.sample(fids, k):
        st.pending.append({'op': 'probe', 'fid': fid})
        if rng.random() < c.get('pathlike', 0.0):
            st.pending[-1]['aspath'] = True
    if rng.random() < 0.25 * w.get('probe2', 1):
        cands = [f for f in fids if KINDS[st.files[f]['kind']][2]
                 and st.files[f]['variant'] != 'mislead']
        if cands:
            st.pending.append({'op': 'probe2', 'fid': rng.choice(cands)})
    return op


def _registry_len():
    from PseudoNetCDF._getreader import _readers
    return len(_readers)


def _expected(st, path, fmt=None, ver=0):
    key = (path, ver, fmt, json.dumps(st.regs, sort_keys=True))
    if key in st.memo:
        st.stats['ref_memo_hits'] += 1
        return st.memo[key]
    st.stats['ref_queries'] += 1
    ans = st.ref.ask(st.regs, path, fmt)
    st.memo[key] = ans
    return ans


def apply(st, op):
    import PseudoNetCDF as pnc
    w = st.w
    o = op['op']
    obs = {}
    before = _registry_len()
    if o == 'mkfile':
        path = w.path(op['name'])
        _write(op['kind'], op['spec'], path)
        seams.stamp_file(path)
        st.files[op['fid']] = {'kind': op['kind'], 'path': path,
                               'variant': op['variant'], 'name': op['name'],
                               'grid': (op['spec'].get('ny'), op['spec'].get('nx'))
                               if isinstance(op['spec'], dict) else (None, None)}
    elif o == 'hopen':
        f = st.files.get(op['fid'])
        if f is None:
            return {'note': 'noop'}
        notes = []
        for i in range(op.get('repeat', 1)):
            try:
                if op['how'] == 'auto':
                    h = pnc.pncopen(f['path'])
                elif op['how'] == 'getreader':
                    h = None
                    pnc.getreader(f['path'])
                else:
                    h = pnc.pncopen(f['path'], format=op['fmt'], **op.get('kw', {}))
                if i == 0:
                    notes.append('ok:' + (type(h).__name__ if h is not None else 'reader'))
                if h is not None and i % 2 == 0:
                    try:
                        h.close()
                    except BaseException:
                        pass
            except BaseException as e:
                if i == 0:
                    notes.append('raised:' + type(e).__name__)
        st.stats['history_opens'] += op.get('repeat', 1)
        w.fault('history_open_' + op['how'], op.get('repeat', 1))
        obs['note'] = notes
        st.stats['nontrivial'] = True
    elif o == 'hrewrite':
        f = st.files.get(op['fid'])
        if f is None:
            return {'note': 'noop'}
        if op.get('opened_before'):
            try:
                pnc.pncopen(f['path'])
            except BaseException:
                pass
        # dropped readers of the old content release their maps first
        seams.GC.collect(2)
        if op['how'] == 'recreate':
            os.unlink(f['path'])
        _write(op['kind'], op['spec'], f['path'])
        seams.stamp_file(f['path'])      # often the same simulated second as before
        suffix = f['name'].split('.', 1)[1] if '.' in f['name'] else None
        f['kind'] = op['kind']
        f['variant'] = 'none' if suffix is None else (
            'conv' if suffix in KINDS[op['kind']][0] else 'mislead')
        f['ver'] = f.get('ver', 0) + 1
        st.stats['rewrites'] = st.stats.get('rewrites', 0) + 1
        w.fault('pool_file_rewritten_' + op['how'])
        st.stats['nontrivial'] = True
    elif o == 'hfail':
        p = w.path(op['what']) if op['what'] != 'dir' else w.root
        try:
            if op['how'] == 'auto':
                pnc.pncopen(p)
            else:
                pnc.getreader(p)
            obs['note'] = 'ok?'
        except BaseException as e:
            obs['note'] = 'raised:' + type(e).__name__
        w.fault('history_failing_open')
    elif o == 'hmf':
        paths = [st.files[f]['path'] for f in op['fids'] if f in st.files]
        if len(paths) < 2:
            return {'note': 'noop'}
        try:
            pnc.pncmfopen(paths, stackdim=op['stackdim'])
            obs['note'] = 'ok'
        except BaseException as e:
            obs['note'] = 'raised:' + type(e).__name__
        w.fault('history_multifile_open')
    elif o == 'register':
        try:
            make_user_class(op['reg'])
        except BaseException as e:
            raise HarnessError('cannot register user class: %r' % e)
        st.regs.append(op['reg'])
        w.fault('reader_registered')
        before = _registry_len()      # registration growth is the model's
    elif o == 'collect':
        seams.GC.collect(2)
        w.fault('gc_between')
    elif o == 'probe':
        f = st.files.get(op['fid'])
        if f is None:
            return {'note': 'noop'}
        st.stats['probes'] += 1
        st.stats['evaluations'] += 1
        if op.get('aspath'):
            import pathlib
            got = observe(pathlib.Path(f['path']))
            w.probe('probe_with_pathlike_argument')
        else:
            got = observe(f['path'])
        exp = _expected(st, f['path'], ver=f.get('ver', 0))
        obs['got'] = got
        k = '%s/%s->%s' % (f['kind'], f['variant'], got.get('cls', '?').split('.')[-1])
        st.stats['answers'][k] = st.stats['answers'].get(k, 0) + 1
        for field in ('reader', 'cls', 'content'):
            if got.get(field) != exp.get(field):
                w.probe('probe_answered_differently_than_pristine')
                raise Violation(
                    'history-dependent-detection',
                    'file %s (%s content, %s name): %s is %r after this history '
                    'but %r in a pristine process with the same registered '
                    'readers (registry length %d, started at %d)' % (
                        f['name'], f['kind'], f['variant'], field,
                        got.get(field), exp.get(field), _registry_len(),
                        st.stats['registry_len_start']),
                    sig={'what': field})
    elif o == 'probe2':
        f = st.files.get(op['fid'])
        if f is None:
            return {'note': 'noop'}
        fmt = KINDS[f['kind']][1]
        if fmt is None or f['variant'] == 'mislead':
            return {'note': 'noop'}
        st.stats['probe2'] += 1
        st.stats['evaluations'] += 1
        a = observe(f['path'])
        e = observe(f['path'], fmt)
        obs['auto'] = a.get('cls')
        obs['explicit'] = e.get('cls')
        if a.get('content') != e.get('content') or \
                (a.get('cls', '').startswith('EXC') != e.get('cls', '').startswith('EXC')):
            raise Violation(
                'auto-differs-from-explicit',
                'file %s (%s): auto-detected %s presents %s %s, format=%r (%s) '
                'presents %s %s' % (f['name'], f['kind'], a.get('cls'),
                                    a.get('content'), a.get('dims'), fmt,
                                    e.get('cls'), e.get('content'), e.get('dims')),
                sig={'kind': f['kind'], 'variant': f['variant']})
    else:
        raise HarnessError('unknown op %r' % (op,))
    after = _registry_len()
    if after != before:
        w.probe('registry_grew_during_open', after - before)
        st.stats['registry_growth'] += after - before
    st.stats['registry_len_max'] = max(st.stats['registry_len_max'], after)
    obs['registry'] = after
    w.abstract(o, op.get('how', '-'),
               st.files.get(op.get('fid'), {}).get('kind', '-') if 'fid' in op else '-',
               st.files.get(op.get('fid'), {}).get('variant', '-') if 'fid' in op else '-')
    return obs


def finish(st):
    if st.ref is not None:
        st.ref.close()
        st.ref = None


def stats(st):
    if st.ref is not None:
        st.ref.close()
        st.ref = None
    return st.stats


def simplify_op(op):
    out = []
    if op.get('op') == 'hopen' and op.get('repeat', 1) > 1:
        out.append(dict(op, repeat=1))
    return out
