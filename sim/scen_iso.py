"""C05 — isolation: inputs never modified, results never alias, closing is local.

Simulated world: a pool of small files on a real scratch file system (netCDF-3,
netCDF-4, IOAPI netCDF, CAMx gridded) written by stub producers, plus in-memory
files, and a table of *slots* (live file objects) each with an independent
deep-snapshot model.  A seeded scheduler interleaves transformations, queries,
writes into results, open / close / drop-reference / garbage-collection steps
(between operations and at the k-th library call inside an operation) and clock
jumps.  After every step every slot the user has not closed or dropped must
still equal its model.
"""
import hashlib
import io
import os

import numpy as np

from .core import seams, snapshot
from .core.world import Violation, HarnessError
from . import files

NAME = 'iso'
PROPERTIES = ['C05']

XFORMS = ['copy', 'slice', 'apply', 'stack', 'subset', 'renamevar', 'renamedim',
          'insertdim', 'rmsingleton', 'reorder', 'mask', 'eval', 'binop',
          'interp', 'from_ncf', 'getvarpnc', 'interpsigma', 'pncexpr', 'slice_dim',
          'reduce_dim', 'merge', 'stack_files', 'removesingleton_fn', 'pncrename',
          'manglenames', 'pncfunc', 'convolve_dim', 'splitdim']
# (mask_vals, mesh_dim and add_attr are in-place helpers; mask_vals is an in-place helper: it edits and returns the file it was given)
# the property's queries: time decoding, value-to-index lookup, dump/repr,
# save (getVarlist/audit_meta repair metadata by design and are not queries
# in the property's sense)
QUERIES = ['gettimes', 'val2idx', 'time2idx', 'date2num', 'time2t', 'repr',
           'dump', 'save', 'ncatts']
LIFE = ['open', 'close', 'drop', 'collect', 'gc_inside', 'clock_jump']
FUNC1D = {
    'half': lambda x: x[::2],
    'diff': lambda x: np.diff(x) if x.size > 1 else x,
    'conv': lambda x: np.convolve(x, [0.5, 0.5], 'valid') if x.size > 1 else x,
}


# ---------------------------------------------------------------------------
def gen_config(rng, tier):
    kinds = ['nc3', 'nc4', 'nc4c', 'ioapi_nc', 'uamiv']
    k = rng.randrange(2, 5)
    pool = [rng.choice(kinds) for _ in range(k)]
    if rng.random() < 0.7 and not any(p.startswith('nc') for p in pool):
        pool.append('nc3')
    w = {}
    for name in XFORMS + QUERIES + ['write']:
        # swarm: drop a random third of the alphabet per run
        w[name] = 0 if rng.random() < 0.3 else rng.choice([1, 1, 2, 4])
    wl = {}
    for name in LIFE:
        wl[name] = 0 if rng.random() < 0.15 else rng.choice([1, 2, 3])
    gcpol = rng.choice(['none', 'between', 'inside', 'both', 'both'])
    if gcpol in ('none', 'inside'):
        wl['collect'] = 0
    if gcpol in ('none', 'between'):
        wl['gc_inside'] = 0
    return {
        'pool': pool,
        'nmem': rng.randrange(1, 4),
        'steps': rng.randrange(10, 41) if tier == 'quick' else rng.randrange(10, 61),
        'weights': w, 'lweights': wl,
        'life_share': rng.choice([0.2, 0.35, 0.5]),
        'gc': gcpol,
        'clock': rng.choice(['steady', 'jumpy', 'jumpy']),
        'max_steps': 120,
    }


class Slot(object):
    __slots__ = ('id', 'obj', 'kind', 'model', 'life', 'path', 'src', 'via',
                 'writable', 'closes', 'grpid', 'qmemo', 'ioapi')

    def __init__(self, sid, obj, kind, path=None, src=(), via='mk'):
        self.id = sid
        self.obj = obj
        self.kind = kind          # mem | nc | ioapi_nc | uamiv | saved
        self.model = None
        self.life = 'open'        # open | closed | dropped
        self.path = path
        self.src = tuple(src)
        self.via = via
        self.writable = kind == 'mem'
        self.closes = 0
        self.grpid = None
        self.qmemo = {}
        self.ioapi = False


class State(object):
    def __init__(self, world, config):
        self.w = world
        self.c = config
        self.slots = {}
        self.next = 0
        self.pool = {}            # pid -> {'kind','path','sha'}
        self.prologue = None
        self.nsteps = 0
        self.armed = None
        self.stats = {'ops': {}, 'raised': {}, 'nontrivial': False,
                      'lifecycle_between_related': 0, 'writes': 0,
                      'recycled_ids': 0, 'slots_max': 0, 'evaluations': 0}
        self.grpids_seen = {}
        self.sentinel = 0
        self.last_life_step = None
        self.tmpn = 0
        self.gsid = 0             # ids are assigned when the op is generated,
        self.gpid = 0             # so deleting ops never renumbers later ones


def start(world, config):
    st = State(world, config)
    return st


def _sha(path):
    h = hashlib.sha256()
    with open(path, 'rb') as f:
        h.update(f.read())
    return h.hexdigest()


# ---------------------------------------------------------------------------
# operation generation (online; the recorded op is fully concrete)
# ---------------------------------------------------------------------------
def _pick(rng, weights):
    items = [(k, v) for k, v in sorted(weights.items()) if v > 0]
    if not items:
        return None
    tot = sum(v for _, v in items)
    x = rng.random() * tot
    for k, v in items:
        x -= v
        if x <= 0:
            return k
    return items[-1][0]


def gen_op(rng, st):
    c = st.c
    # prologue: create pool files and in-memory files, open some
    if st.prologue is None:
        st.prologue = []
        for i, k in enumerate(c['pool']):
            if k in ('nc3', 'nc4', 'nc4c'):
                spec = files.gen_spec(rng)
            elif k == 'ioapi_nc':
                spec = files.gen_ioapi_spec(rng)
            else:
                spec = _gen_uamiv_spec(rng)
            st.prologue.append({'op': 'mkfile', 'kind': k, 'spec': spec,
                                'pid': _pid(st)})
        for i in range(c['nmem']):
            if rng.random() < 0.3:
                st.prologue.append({'op': 'mkmem', 'kind': 'ioapi',
                                    'spec': files.gen_ioapi_spec(rng),
                                    'sid': _sid(st)})
            else:
                st.prologue.append({'op': 'mkmem', 'kind': 'generic',
                                    'spec': files.gen_spec(rng),
                                    'sid': _sid(st)})
        for i in range(len(c['pool'])):
            if rng.random() < 0.7:
                st.prologue.append({'op': 'open', 'pool': i, 'sid': _sid(st),
                                    'how': rng.choice(['auto', 'explicit', 'explicit', 'dataset'])})
    if st.prologue:
        return st.prologue.pop(0)
    if st.nsteps >= c['steps']:
        return None
    st.nsteps += 1
    pw = st.__dict__.pop('pending_write', None)
    if pw is not None:
        # aliasing only shows when a write follows: some results are written
        # into right after they were made
        x = st.slots.get(pw)
        if x is not None and x.life == 'open' and x.writable and x.kind not in ('saved', 'view'):
            return _gen_write(rng, st, x)
    # handles returned by save() are raw netCDF4 datasets opened for writing:
    # they take part in the lifecycle schedule but are not receivers
    live = [s for s in st.slots.values() if s.life == 'open' and s.kind not in ('saved', 'view')]
    if rng.random() < c['life_share'] or not live:
        name = _pick(rng, c['lweights']) or 'clock_jump'
        if name == 'open':
            if not st.pool:
                return {'op': 'clock_jump', 'seconds': 1}
            return {'op': 'open', 'pool': rng.choice(sorted(st.pool)),
                    'sid': _sid(st), 'how': rng.choice(['auto', 'explicit', 'explicit', 'dataset'])}
        if name == 'close':
            cands = [s for s in st.slots.values()
                     if s.life in ('open', 'closed') and s.kind != 'mem']
            if not cands:
                cands = [s for s in st.slots.values() if s.life != 'dropped']
            if not cands:
                return {'op': 'collect', 'gen': 2}
            return {'op': 'close', 'slot': rng.choice(cands).id}
        if name == 'drop':
            cands = [s for s in st.slots.values() if s.life != 'dropped']
            if len(cands) <= 1:
                return {'op': 'collect', 'gen': 2}
            # prefer dropping closed handles and disk handles
            pref = [s for s in cands if s.life == 'closed'] or cands
            return {'op': 'drop', 'slot': rng.choice(pref).id}
        if name == 'collect':
            return {'op': 'collect', 'gen': rng.choice([0, 1, 2, 2])}
        if name == 'gc_inside':
            return {'op': 'gc_inside', 'k': rng.choice([1, 2, 5, 10, 25, 60, 150, 400])}
        return {'op': 'clock_jump',
                'seconds': rng.choice([1, 59, 3600, 86400, 31622400, -3600])}
    s = rng.choice(live)
    name = _pick(rng, c['weights'])
    if name is None:
        name = 'copy'
    if s.kind == 'ncraw':
        # a bare netCDF4.Dataset has none of the library's methods; the library
        # touches it through pncwrite / pncgen (and through the lifecycle)
        name = 'save'
    if name == 'write':
        cands = [x for x in live if x.writable]
        if not cands:
            name = 'copy'
        else:
            s = rng.choice(cands)
            return _gen_write(rng, st, s)
    if name in XFORMS:
        op = _gen_xform(rng, st, s, name, live)
        if op.get('op') == 'xform' and 'sid' in op and rng.random() < 0.3:
            st.pending_write = op['sid']
        if op.get('op') == 'xform' and 'sid' in op and \
                name in ('copy', 'slice', 'subset', 'renamevar', 'renamedim') and rng.random() < 0.12:
            # results created on disk (set_dest): their handles take part in the
            # open / close / drop / collect schedule like any other disk file
            op['dest'] = 'dest_%d.nc' % op['sid']
        return op
    return _gen_query(rng, st, s, name)


def _sid(st):
    st.gsid += 1
    return st.gsid - 1


def _pid(st):
    st.gpid += 1
    return st.gpid - 1


def _dims(s):
    return [(k, len(v)) for k, v in s.obj.dimensions.items()]


def _vars(s):
    out = []
    for k in list(s.obj.variables.keys()):
        try:
            v = s.obj.variables[k]
            out.append((k, tuple(v.dimensions), tuple(v.shape), np.dtype(v.dtype).kind))
        except Exception:
            pass
    return out


def _gen_sel(rng, n):
    k = rng.randrange(6)
    if n <= 0:
        return ['slice', None, None, None]
    if k == 0:
        return ['int', rng.randrange(-n, n)]
    if k in (1, 2):
        a = rng.randrange(0, n)
        b = rng.randrange(a, n + 1)
        return ['slice', a, b, rng.choice([None, 1, 2])]
    if k == 3:
        return ['slice', None, None, rng.choice([-1, 2])]
    return ['list', [rng.randrange(n) for _ in range(rng.randrange(1, 4))]]


def _gen_xform(rng, st, s, name, live):
    op = {'op': 'xform', 'name': name, 'slot': s.id, 'sid': _sid(st)}
    dims = _dims(s)
    vars_ = _vars(s)
    vnames = [v[0] for v in vars_]
    datav = [v for v in vars_ if v[3] in 'fiu' and len(v[1]) >= 1]
    if name == 'copy':
        op['args'] = rng.choice([{}, {}, {'variables': False}, {'data': False},
                                 {'props': False}])
    elif name == 'slice':
        if not dims:
            op['args'] = {}
        else:
            ds = rng.sample(dims, min(len(dims), rng.choice([1, 1, 2])))
            op['args'] = {d: _gen_sel(rng, n) for d, n in ds}
            lists = [d for d in op['args'] if op['args'][d][0] == 'list']
            if len(lists) > 1:   # equal-length lists: pointwise selection
                m = len(op['args'][lists[0]][1])
                for d in lists[1:]:
                    n = dict(dims)[d]
                    op['args'][d] = ['list', [rng.randrange(max(1, n)) for _ in range(m)]]
    elif name == 'apply':
        if dims:
            ds = rng.sample(dims, min(len(dims), rng.choice([1, 1, 2])))
            op['args'] = {d: rng.choice(['mean', 'sum', 'min', 'max', 'std',
                                          'mean', 'half', 'diff', 'conv'])
                          for d, n in ds}
        else:
            op['args'] = {}
    elif name == 'stack':
        rel = [x for x in live if _root(st, x) == _root(st, s)]
        o = rng.choice(rel)
        op['other'] = [o.id] if rng.random() < 0.7 else [o.id, s.id]
        op['dim'] = rng.choice(dims)[0] if dims else 'time'
    elif name == 'subset':
        k = rng.randrange(1, max(2, len(vnames)))
        op['keys'] = rng.sample(vnames, min(k, len(vnames))) if vnames else []
        op['exclude'] = rng.random() < 0.3
    elif name == 'renamevar':
        if vnames:
            op['old'] = rng.choice(vnames)
        else:
            op['old'] = 'A'
        op['new'] = 'R%d' % rng.randrange(100)
    elif name == 'renamedim':
        op['old'] = rng.choice(dims)[0] if dims else 'x'
        op['new'] = 'D%d' % rng.randrange(100)
    elif name == 'insertdim':
        op['dim'] = 'N%d' % rng.randrange(100)
        op['n'] = rng.choice([1, 1, 2])
        op['kw'] = rng.choice([{}, {'multionly': True},
                               {'before': rng.choice(dims)[0] if dims else 'x'},
                               {'after': rng.choice(dims)[0] if dims else 'x'}])
    elif name == 'rmsingleton':
        op['dim'] = rng.choice([None] + [d for d, n in dims])
    elif name == 'reorder':
        if datav:
            v = rng.choice(datav)
            nd = list(v[1])
            rng.shuffle(nd)
            op['old'] = list(v[1])
            op['new'] = nd
        else:
            op['old'] = []
            op['new'] = []
    elif name == 'mask':
        kw = {}
        thr = rng.choice([0., 1000., 1500., 2002.5, 3000.])
        for k in rng.sample(['greater', 'less', 'greater_equal', 'less_equal',
                             'values', 'equal', 'invalid'], rng.randrange(1, 3)):
            kw[k] = True if k == 'invalid' else thr
        if rng.random() < 0.3:
            kw['coords'] = True
        if datav and rng.random() < 0.45:
            v = rng.choice(datav)
            n = int(np.prod(v[2])) if v[2] else 1
            op['where'] = {'like': v[0], 'cells': sorted(set(rng.randrange(max(1, n))
                                                           for _ in range(rng.randrange(1, 4)))),
                           'as': rng.choice(['where', 'mask']),
                           'dims': rng.random() < 0.3}
            if rng.random() < 0.5:
                kw = {}
        op['kw'] = kw
    elif name == 'eval':
        if datav:
            a = rng.choice(datav)[0]
            same = [v[0] for v in datav if v[1] == dict((x[0], x) for x in datav)[a][1]]
            b = rng.choice(same)
            form = rng.choice(['N = {a} * 2', 'N = {a} + {b}', 'N = {a}',
                               'N = {a}[:]', 'N = {a}[...]', 'N = np.abs({a}) + 1',
                               'N = {a} - {b}; M = {a}', 'N = {a}.copy()',
                               '{a} = {a} * 0',
                               # variables reached through the namespace's file
                               # objects (the only way to name e.g. IJ-AVG-$_NOx)
                               "N = self.variables['{a}']",
                               "N = self.variables['{a}'][:]; M = {b} + 0",
                               "M = {b} * 1; N = outf.variables['{a}']",
                               "N = self.variables['{a}'][...]; M = {b}"])
            op['expr'] = form.format(a=a, b=b)
        else:
            op['expr'] = 'N = 1'
        op['copyall'] = rng.random() < 0.4 or op['expr'].startswith('N = self.variables') and \
            ';' not in op['expr']
    elif name == 'binop':
        rel = [x for x in live if _root(st, x) == _root(st, s)]
        op['other'] = rng.choice(rel).id
        op['sym'] = rng.choice(['+', '-', '*', '/', '**', '%', '<', '==', '//'])
    elif name == 'interp':
        cv = [v for v in vars_ if len(v[1]) == 1 and v[0] == v[1][0] and v[2][0] >= 2]
        if cv:
            v = rng.choice(cv)
            op['dim'] = v[0]
            op['frac'] = [rng.choice([0.0, 0.25, 0.5, 0.75, 1.0])
                          for _ in range(rng.randrange(1, 4))]
        else:
            op['dim'] = None
    elif name == 'from_ncf':
        isio = all(d in dict(dims) for d in ('TSTEP', 'VAR', 'DATE-TIME', 'LAY'))
        op['cls'] = rng.choice(['PseudoNetCDFFile', 'netcdf'] +
                               (['ioapi', 'ioapi'] if isio else []))
    elif name == 'getvarpnc':
        op['keys'] = rng.choice([None, rng.sample(vnames, min(len(vnames), 2)) if vnames else None])
    elif name == 'interpsigma':
        op['levels'] = rng.choice([[1.0, 0.5, 0.0], [1.0, 0.75, 0.25, 0.0], [1.0, 0.0]])
        op['kind'] = rng.choice(['linear', 'conserve'])
    elif name == 'pncexpr':
        # functional form; its result WRAPS the input (documented sharing), so the
        # result slot only takes part in the lifecycle schedule
        a = rng.choice(datav)[0] if datav else None
        op['expr'] = ('NEWV = %s * 2' % a) if a else 'NEWV = 1'
    elif name == 'slice_dim':
        if dims:
            d, n = rng.choice(dims)
            a = rng.randrange(0, max(1, n))
            op['def'] = '%s,%d,%d' % (d, a, rng.randrange(a, max(a + 1, n)) + 1)
        else:
            op['def'] = 'x,0,1'
    elif name == 'reduce_dim':
        op['def'] = '%s,%s' % (rng.choice(dims)[0] if dims else 'x',
                               rng.choice(['mean', 'sum', 'min', 'max']))
    elif name == 'mask_vals':
        op['def'] = '%s,%s' % (rng.choice(['greater', 'less', 'values', 'equal']),
                               rng.choice(['0', '1000', '2002.5']))
    elif name in ('merge', 'stack_files'):
        rel = [x for x in live if _root(st, x) == _root(st, s)]
        op['other'] = [rng.choice(rel).id]
        op['dim'] = rng.choice(dims)[0] if dims else 'time'
    elif name == 'removesingleton_fn':
        op['dim'] = rng.choice(dims)[0] if dims else 'x'
    elif name == 'pncrename':
        if rng.random() < 0.5 and vnames:
            op['def'] = 'v,%s,RN%d' % (rng.choice(vnames), rng.randrange(100))
        else:
            op['def'] = 'd,%s,RD%d' % (rng.choice(dims)[0] if dims else 'x', rng.randrange(100))
    elif name == 'pncfunc':
        op['func'] = rng.choice(['abs', 'sqrt', 'negative'])
    elif name == 'convolve_dim':
        op['def'] = '%s,%s,0.5,0.5' % (rng.choice(dims)[0] if dims else 'x',
                                       rng.choice(['valid', 'same', 'full']))
    elif name == 'splitdim':
        cands = [(d, n) for d, n in dims if n in (4, 6)]
        if cands:
            d, n = rng.choice(cands)
            op['dim'] = d
            op['new'] = ['SA', 'SB']
            op['shape'] = [2, n // 2]
        else:
            op['dim'] = None
    return op


def _gen_query(rng, st, s, name):
    op = {'op': 'query', 'name': name, 'slot': s.id}
    dims = _dims(s)
    vars_ = _vars(s)
    if name == 'gettimes':
        op['bounds'] = rng.random() < 0.4
        op['datetype'] = rng.choice(['datetime', 'datetime', 'datetime64[s]'])
    elif name == 'val2idx':
        cv = [v for v in vars_ if len(v[1]) == 1 and v[0] == v[1][0]]
        if cv:
            v = rng.choice(cv)
            op['dim'] = v[0]
        else:
            op['dim'] = dims[0][0] if dims else 'x'
        op['frac'] = [rng.choice([-0.2, 0.0, 0.1, 0.5, 0.9, 1.0, 1.3])
                      for _ in range(rng.randrange(1, 4))]
        op['method'] = rng.choice(['nearest', 'bounds', 'bounds', 'exact'])
        op['bounds'] = rng.choice(['ignore', 'warn', 'error'])
        op['clean'] = rng.choice(['mask', 'none'])
        op['lr'] = rng.choice([None, 'nan'])
    elif name in ('time2idx', 'date2num', 'time2t'):
        op['which'] = [rng.randrange(0, 4) for _ in range(rng.randrange(1, 3))]
        if name == 'time2t':
            op['ttype'] = rng.choice(['nearest', 'bounds', 'bounds_close'])
    elif name == 'save':
        st.tmpn += 1
        op['fmt'] = rng.choice(['NETCDF3_CLASSIC', 'NETCDF4_CLASSIC', 'NETCDF4',
                                'NETCDF3_64BIT_OFFSET'])
        if s.kind == 'uamiv' and rng.random() < 0.6:
            op['fmt'] = 'uamiv'           # save through the CAMx gridded writer
        op['complevel'] = rng.choice([0, 0, 1])
        op['file'] = 'saved%d.nc' % st.tmpn
        op['sid'] = _sid(st)
        op['pid'] = _pid(st)
    elif name == 'dump':
        op['header'] = rng.random() < 0.5
    return op


def _gen_write(rng, st, s):
    vars_ = [v for v in _vars(s) if v[3] in 'fiu' and int(np.prod(v[2])) > 0]
    if not vars_:
        return {'op': 'clock_jump', 'seconds': 1}
    v = rng.choice(vars_)
    n = int(np.prod(v[2])) if v[2] else 1
    st.sentinel += 1
    how = rng.choice(['cell', 'cell', 'all', 'slice0'])
    return {'op': 'write', 'slot': s.id, 'var': v[0], 'flat': rng.randrange(n),
            'how': how, 'value': -777000 - st.sentinel}


def _gen_uamiv_spec(rng):
    nsp = rng.randrange(1, 4)
    return {'style': 'uamiv',
            'name': rng.choice(['AVERAGE', 'EMISSIONS', 'AIRQUALITY']),
            'species': ['O3', 'NO2', 'CO', 'PAR'][:nsp],
            'nx': rng.randrange(2, 5), 'ny': rng.randrange(1, 5),
            'nz': rng.randrange(1, 3), 'nt': rng.randrange(1, 4),
            'sdate': rng.choice([2002154, 1999365, 2004059, 2000366]),
            'stime': rng.choice([0., 12., 23.])}


def _root(st, s):
    seen = set()
    while s.src:
        if s.id in seen:
            break
        seen.add(s.id)
        p = st.slots.get(s.src[0])
        if p is None:
            break
        s = p
    return s.id


# ---------------------------------------------------------------------------
# applying operations to the REAL code
# ---------------------------------------------------------------------------
def _new_slot(st, sid, obj, kind, path=None, src=(), via='mk'):
    if sid in st.slots:
        raise HarnessError('slot id %r reused' % sid)
    s = Slot(sid, obj, kind, path, src, via)
    st.slots[s.id] = s
    st.stats['slots_max'] = max(st.stats['slots_max'],
                                sum(1 for x in st.slots.values() if x.life == 'open'))
    try:
        from PseudoNetCDF.cmaqfiles._ioapi import ioapi_base
        s.ioapi = isinstance(obj, ioapi_base)
    except Exception:
        pass
    gid = getattr(obj, '_grpid', None)
    if isinstance(gid, int):
        s.grpid = gid
        if gid in st.grpids_seen:
            st.stats['recycled_ids'] += 1
            st.w.probe('handle_id_recycled')
            prev = st.slots.get(st.grpids_seen[gid])
            if prev is not None and prev.life != 'open' and prev.obj is not None:
                st.w.probe('recycled_id_while_old_object_alive')
        st.grpids_seen[gid] = s.id
    return s


def _snap(st, s):
    try:
        return snapshot.snap_file(s.obj)
    except MemoryError:
        raise
    except Exception as e:
        return e


def _sel(x):
    if x[0] == 'int':
        return x[1]
    if x[0] == 'slice':
        return slice(x[1], x[2], x[3])
    return list(x[1])


def _times_for(s, which):
    t = s.obj.getTimes()
    n = len(t)
    return np.array([t[i % n] for i in which])


def _coordvals(s, dim, frac):
    v = np.asarray(s.obj.variables[dim][...], dtype='f8')
    lo, hi = float(v.min()), float(v.max())
    return np.array([lo + f * (hi - lo) for f in frac])


def _do_xform(st, s, op):
    """with op['dest']: the receiver is told to create its results on disk
    (set_dest), so the result is a disk-backed file with a handle of its own"""
    dest = op.get('dest')
    if not dest:
        return _do_xform_inner(st, s, op)
    f = s.obj
    path = st.w.path(dest)
    try:
        f.set_dest(path, mode='w', format='NETCDF4_CLASSIC')
    except Exception:
        return _do_xform_inner(st, s, op)
    st.w.probe('result_created_on_disk_via_set_dest')
    try:
        ns, note = _do_xform_inner(st, s, op)
    finally:
        try:
            if isinstance(getattr(f, '__dict__', None), dict) and '_destination' in f.__dict__:
                del f.__dict__['_destination']
            else:
                object.__setattr__(f, '_destination', None)
        except Exception:
            pass
    if ns is not None and getattr(ns.obj, '_grpid', None) is not None:
        ns.kind = 'dest'
        ns.writable = False
        ns.path = path
    return ns, note


def _do_xform_inner(st, s, op):
    import PseudoNetCDF as pnc
    f = s.obj
    name = op['name']
    src = [s.id]
    if name == 'copy':
        r = f.copy(**op.get('args', {}))
    elif name == 'slice':
        r = f.sliceDimensions(**{d: _sel(x) for d, x in op.get('args', {}).items()})
    elif name == 'apply':
        kw = {d: (FUNC1D[x] if x in FUNC1D else x) for d, x in op.get('args', {}).items()}
        r = f.applyAlongDimensions(**kw)
    elif name == 'stack':
        others = []
        for oid in op['other']:
            o = st.slots.get(oid)
            if o is None or o.life != 'open':
                return None, 'noop'
            others.append(o.obj)
            src.append(oid)
        r = f.stack(others if len(others) > 1 else others[0], op['dim'])
    elif name == 'subset':
        r = f.subsetVariables(list(op['keys']), exclude=op.get('exclude', False))
    elif name == 'renamevar':
        r = f.renameVariable(op['old'], op['new'])
    elif name == 'renamedim':
        r = f.renameDimension(op['old'], op['new'])
    elif name == 'insertdim':
        r = f.insertDimension(**dict(op.get('kw', {}), **{op['dim']: op['n']}))
    elif name == 'rmsingleton':
        r = f.removeSingleton(dimkey=op.get('dim'))
    elif name == 'reorder':
        r = f.reorderDimensions(op['old'], op['new'])
    elif name == 'mask':
        kw = dict(op.get('kw', {}))
        wh = op.get('where')
        if wh is not None and wh['like'] in f.variables:
            like = f.variables[wh['like']]
            m = np.zeros(like.shape, dtype=bool)
            fl = m.reshape(-1)
            for i in wh['cells']:
                if fl.size:
                    fl[i % fl.size] = True
            kw[wh['as']] = m
            if wh.get('dims'):
                kw['dims'] = tuple(like.dimensions)
        r = f.mask(**kw)
    elif name == 'eval':
        r = f.eval(op['expr'], inplace=False, copyall=op.get('copyall', False))
    elif name == 'binop':
        o = st.slots.get(op['other'])
        if o is None or o.life != 'open':
            return None, 'noop'
        src.append(o.id)
        g = o.obj
        sym = op['sym']
        if sym == '+':
            r = f + g
        elif sym == '-':
            r = f - g
        elif sym == '*':
            r = f * g
        elif sym == '/':
            r = f / g
        elif sym == '**':
            r = f ** g
        elif sym == '%':
            r = f % g
        elif sym == '<':
            r = f < g
        elif sym == '==':
            r = f == g
        else:
            r = f // g
    elif name == 'interp':
        if not op.get('dim'):
            return None, 'noop'
        nv = _coordvals(s, op['dim'], op['frac'])
        r = f.interpDimension(op['dim'], np.asarray(nv))
    elif name == 'from_ncf':
        if op['cls'] == 'netcdf':
            from PseudoNetCDF.core._files import netcdf
            r = netcdf.from_ncf(f)
        elif op['cls'] == 'ioapi':
            from PseudoNetCDF.cmaqfiles._ioapi import ioapi
            r = ioapi.from_ncf(f)
        else:
            r = pnc.PseudoNetCDFFile.from_ncf(f)
    elif name == 'getvarpnc':
        from PseudoNetCDF.sci_var import getvarpnc
        r = getvarpnc(f, op.get('keys'))
    elif name == 'interpsigma':
        if not hasattr(f, 'interpSigma'):
            return None, 'noop'
        r = f.interpSigma(np.array(op['levels'], dtype='f'),
                          interptype=op.get('kind', 'linear'))
    elif name == 'pncexpr':
        from PseudoNetCDF.sci_var import pncexpr
        r = pncexpr(op['expr'], f)
        if r is None or r is f or not hasattr(r, 'variables'):
            return None, 'not-a-file'
        ns = _new_slot(st, op['sid'], r, 'view', src=src, via=name)
        ns.writable = False
        st.w.probe('wrapping_view_created')
        return ns, 'view'
    elif name == 'slice_dim':
        from PseudoNetCDF.sci_var import slice_dim
        r = slice_dim(f, op['def'])
    elif name == 'reduce_dim':
        from PseudoNetCDF.sci_var import reduce_dim
        r = reduce_dim(f, op['def'])
    elif name == 'mask_vals':
        from PseudoNetCDF.sci_var import mask_vals
        r = mask_vals(f, op['def'])
    elif name in ('merge', 'stack_files'):
        from PseudoNetCDF.sci_var import merge, stack_files
        others = []
        for oid in op['other']:
            o = st.slots.get(oid)
            if o is None or o.life != 'open':
                return None, 'noop'
            others.append(o.obj)
            src.append(oid)
        if name == 'merge':
            r = merge([f] + others)
        else:
            r = stack_files([f] + others, op['dim'])
    elif name == 'removesingleton_fn':
        from PseudoNetCDF.sci_var import removesingleton
        r = removesingleton(f, op['dim'])
    elif name == 'pncrename':
        from PseudoNetCDF.sci_var import pncrename
        r = pncrename(f, op['def'])
    elif name == 'manglenames':
        from PseudoNetCDF.sci_var import manglenames
        r = manglenames(f)
    elif name == 'pncfunc':
        from PseudoNetCDF.core._functions import pncfunc
        r = pncfunc(getattr(np, op['func']), f, verbose=0)
    elif name == 'convolve_dim':
        from PseudoNetCDF.sci_var import convolve_dim
        r = convolve_dim(f, op['def'])
    elif name == 'splitdim':
        if not op.get('dim'):
            return None, 'noop'
        from PseudoNetCDF.sci_var import splitdim
        r = splitdim(f, op['dim'], op['new'], op['shape'])
    else:
        raise HarnessError('unknown xform %s' % name)
    if r is f and name in ('slice_dim', 'reduce_dim') and \
            str(op.get('def', '')).split(',')[0] not in f.dimensions:
        # documented pass-through: "<dim> not in file" is warned about and the input
        # is handed back; no new file is returned, nothing to judge
        st.w.probe('functional_helper_passed_its_input_through')
        return None, 'same-object'
    if r is f:
        # "returns a new file": the receiver itself is the extreme case of a result
        # that aliases its input (every later write to the result is a write to the
        # input, closing the result closes the input)
        raise Violation('result-aliases-other-file',
                        '%s returned the file it was applied to (slot %d) instead of a new '
                        'file' % (name, s.id),
                        sig={'field': 'identity', 'via': name})
    if r is None:
        return None, 'same-object'
    if not hasattr(r, 'variables') or not hasattr(r, 'dimensions'):
        return None, 'not-a-file'
    kind = 'mem'
    ns = _new_slot(st, op['sid'], r, kind, src=src, via=name)
    return ns, 'ok'


def _val(x):
    """Canonical, comparable form of a query result."""
    if isinstance(x, np.ma.MaskedArray):
        return ('ma', str(x.dtype), x.shape,
                np.ma.getmaskarray(x).tobytes(),
                repr(np.ma.filled(x, 0).tolist()))
    if isinstance(x, np.ndarray):
        return ('a', str(x.dtype), x.shape, repr(x.tolist()))
    if isinstance(x, (tuple, list)):
        return tuple(_val(i) for i in x)
    if isinstance(x, dict):
        return tuple(sorted((str(k), _val(v)) for k, v in x.items()))
    return repr(x)


def _do_query(st, s, op):
    f = s.obj
    name = op['name']
    if name == 'gettimes':
        return _val(f.getTimes(datetype=op.get('datetype', 'datetime'),
                               bounds=op.get('bounds', False)))
    if name == 'val2idx':
        vals = _coordvals(s, op['dim'], op['frac'])
        lr = float('nan') if op.get('lr') == 'nan' else None
        return _val(f.val2idx(op['dim'], vals, method=op['method'],
                              bounds=op['bounds'], clean=op['clean'],
                              left=lr, right=lr))
    if name == 'time2idx':
        return _val(f.time2idx(_times_for(s, op['which']), bounds='ignore'))
    if name == 'date2num':
        return _val(f.date2num(_times_for(s, op['which'])))
    if name == 'time2t':
        return _val(f.time2t(_times_for(s, op['which']), ttype=op['ttype']))
    if name == 'repr':
        return hashlib.md5(repr(f).encode()).hexdigest()
    if name == 'dump':
        out = io.StringIO()
        f.dump(header=op.get('header', True), outfile=out)
        return hashlib.md5(out.getvalue().encode()).hexdigest()
    if name == 'varlist':
        if not hasattr(f, 'getVarlist'):
            return 'n/a'
        return _val(f.getVarlist(update=False))
    if name == 'audit':
        if not hasattr(f, 'audit_meta'):
            return 'n/a'
        r = f.audit_meta(fail='ignore')
        return _val(r[0])
    if name == 'ncatts':
        d = f.getncatts() if hasattr(f, 'getncatts') else {k: f.getncattr(k) for k in f.ncattrs()}
        return tuple(sorted((k, repr(snapshot.canon_value(v))) for k, v in d.items()))
    if name == 'save':
        path = st.w.path(op['file'])
        if op['fmt'] == 'uamiv':
            path = path + '.uamiv'
            h = f.save(path, format='uamiv', verbose=0)
            st.pool[op['pid']] = {'kind': 'uamiv', 'path': path, 'sha': None}
            if h is not None and hasattr(h, 'close'):
                ns = _new_slot(st, op['sid'], h, 'saved', path=path, src=[s.id], via='save')
                ns.writable = False
                ns.model = None
                return 'saved-camx->slot%d' % ns.id
            return 'saved-camx'
        if s.kind == 'ncraw':
            import PseudoNetCDF as pnc
            h = pnc.pncwrite(f, path, format=op['fmt'] if op['fmt'] != 'uamiv' else 'NETCDF4',
                             complevel=op.get('complevel', 0), verbose=0)
        else:
            h = f.save(path, format=op['fmt'], complevel=op.get('complevel', 0),
                       verbose=0)
        st.pool[op['pid']] = {'kind': 'saved', 'path': path, 'sha': None}
        if h is not None and hasattr(h, 'variables'):
            ns = _new_slot(st, op['sid'], h, 'saved', path=path, src=[s.id], via='save')
            ns.writable = False
            return 'saved->slot%d' % ns.id
        return 'saved'
    raise HarnessError('unknown query %s' % name)


def _open(st, op):
    import PseudoNetCDF as pnc
    if op['pool'] not in st.pool:
        return None, 'noop'
    p = st.pool[op['pool']]
    kind = p['kind']
    fmt = {'nc3': 'netcdf', 'nc4': 'netcdf', 'nc4c': 'netcdf', 'saved': 'netcdf',
           'ioapi_nc': 'ioapi', 'uamiv': 'uamiv'}[kind]
    if op['how'] == 'dataset' and fmt in ('netcdf', 'ioapi'):
        # the plain netCDF4 reader: pncopen hands out a bare netCDF4.Dataset
        f = pnc.pncopen(p['path'], format='Dataset')
        s = _new_slot(st, op['sid'], f, 'ncraw', path=p['path'], via='open')
        s.writable = False
        return s, 'ok'
    if op['how'] == 'explicit':
        f = pnc.pncopen(p['path'], format=fmt)
    else:
        f = pnc.pncopen(p['path'])
    sk = {'nc3': 'nc', 'nc4': 'nc', 'nc4c': 'nc', 'saved': 'nc',
          'ioapi_nc': 'ioapi_nc', 'uamiv': 'uamiv'}[kind]
    s = _new_slot(st, op['sid'], f, sk, path=p['path'], via='open')
    s.writable = False
    return s, 'ok'


def _kindsig(s):
    return s.kind + ('+ioapi' if s.ioapi and s.kind == 'mem' else '')


def _difffield(d):
    """coarse category of the first difference (for the violation class)"""
    x = d[0]
    if x.startswith('attribute'):
        return 'attr:' + x.split()[1]
    if x.startswith('dimensions'):
        return 'dims'
    if x.startswith('variable'):
        parts = x.split()
        what = parts[2]
        if what == 'attribute':
            return 'varattr:' + parts[3]
        return 'var-' + what
    return 'other'


def check_all(st, op, touched=(), wrote=None):
    """Invariants 1-3 after every step."""
    st.stats['evaluations'] += 1
    opname = op.get('name') or op['op']
    for s in list(st.slots.values()):
        if s.life != 'open' or s.model is None:
            continue
        if wrote is not None and s.id == wrote:
            continue
        cur = _snap(st, s)
        if isinstance(cur, Exception):
            if s.kind == 'mem':
                # it was readable when its model was taken: an operation broke it
                raise Violation(
                    'in-memory-file-broken',
                    'slot %d (%s, made by %s) can no longer be read after %s: %s: %s' % (
                        s.id, _kindsig(s), s.via, opname, type(cur).__name__, cur),
                    sig={'op': opname, 'error': type(cur).__name__})
            raise Violation(
                'other-open-file-invalidated',
                'slot %d (%s, %s) can no longer be read after %s: %s: %s' % (
                    s.id, s.kind, st.w.rel(s.path), opname,
                    type(cur).__name__, cur),
                sig={'error': type(cur).__name__})
        d = snapshot.diff(s.model, cur)
        if d:
            if wrote is not None:
                ws = st.slots[wrote]
                rel = 'source' if s.id in _ancestors(st, ws) else \
                    ('derived' if wrote in _ancestors(st, s) else 'sibling')
                raise Violation(
                    'result-aliases-other-file',
                    'writing into slot %d (made by %s) changed slot %d (%s, %s): %s' % (
                        wrote, ws.via, s.id, s.kind, rel, '; '.join(d[:3])),
                    sig={'via': ws.via if rel == 'source' else s.via,
                         'field': _difffield(d).split(':')[0]})
            if s.id in touched:
                raise Violation(
                    'input-modified',
                    '%s modified its %s slot %d (%s): %s' % (
                        opname, 'receiver' if s.id == touched[0] else 'argument',
                        s.id, _kindsig(s), '; '.join(d[:3])),
                    sig={'op': opname, 'field': _difffield(d)})
            raise Violation(
                'unrelated-file-modified',
                '%s on slots %s changed unrelated slot %d (%s): %s' % (
                    opname, list(touched), s.id, _kindsig(s), '; '.join(d[:3])),
                sig={'op': opname, 'field': _difffield(d)})
    # backing files are opened read-only: bytes must not change
    for p in st.pool.values():
        if p.get('sha'):
            if _sha(p['path']) != p['sha']:
                raise Violation('backing-file-changed',
                                '%s changed on disk after %s' % (
                                    st.w.rel(p['path']), opname),
                                sig={'op': opname, 'kind': p['kind']})


def _ancestors(st, s):
    out = set()
    todo = list(s.src)
    while todo:
        i = todo.pop()
        if i in out:
            continue
        out.add(i)
        p = st.slots.get(i)
        if p is not None:
            todo.extend(p.src)
    return out


def _lifevec(st):
    c = {}
    for s in st.slots.values():
        k = s.life if s.kind == 'mem' else s.life + '*'
        c[k] = c.get(k, 0) + 1
    return ','.join('%s%d' % (k, v) for k, v in sorted(c.items()))


def apply(st, op):
    w = st.w
    o = op['op']
    obs = {}
    st.stats['ops'][op.get('name') or o] = st.stats['ops'].get(op.get('name') or o, 0) + 1
    armed = st.armed
    st.armed = None
    touched = ()
    wrote = None
    if o == 'mkfile':
        i = op['pid']
        k = op['kind']
        path = w.path('pool%d.%s' % (i, {'nc3': 'nc', 'nc4': 'nc4', 'nc4c': 'nc',
                                          'ioapi_nc': 'ioapi.nc',
                                          'uamiv': 'uamiv'}[k]))
        if k in ('nc3', 'nc4', 'nc4c'):
            files.write_netcdf(op['spec'], path,
                               {'nc3': 'NETCDF3_CLASSIC', 'nc4': 'NETCDF4',
                                'nc4c': 'NETCDF4_CLASSIC'}[k])
        elif k == 'ioapi_nc':
            files.write_ioapi_netcdf(op['spec'], path)
        elif k == 'uamiv':
            from .refcodec import camx
            camx.write_gridded(path, camx.gridded_from_spec(op['spec']))
        st.pool[i] = {'kind': k, 'path': path, 'sha': _sha(path)}
        obs['pool'] = i
    elif o == 'mkmem':
        try:
            if op['kind'] == 'ioapi':
                f = files.build_ioapi_mem(op['spec'])
            else:
                f = files.build_mem(op['spec'])
        except Exception as e:
            raise HarnessError('cannot build in-memory file: %r' % e)
        s = _new_slot(st, op['sid'], f, 'mem', via='mkmem')
        s.model = _snap(st, s)
        if isinstance(s.model, Exception):
            raise HarnessError('cannot snapshot new in-memory file: %r' % s.model)
        obs['slot'] = s.id
    elif o == 'open':
        try:
            s, note = _open(st, op)
        except Exception as e:
            s, note = None, 'raised:' + type(e).__name__
            _count_raise(st, 'open', e)
        obs['note'] = note
        if s is not None:
            m = _snap(st, s)
            if isinstance(m, Exception):
                # a file that can not be read right after open is outside C05
                s.life = 'dropped'
                s.obj = None
                obs['note'] = 'unreadable:' + type(m).__name__
            else:
                s.model = m
                obs['slot'] = s.id
                obs['grpid'] = s.grpid
                obs['cls'] = type(s.obj).__name__
    elif o == 'close':
        s = st.slots.get(op['slot'])
        if s is None or s.life == 'dropped':
            obs['note'] = 'noop'
        elif s.kind in ('saved', 'ncraw') and s.life == 'closed':
            # save() returns a plain netCDF4.Dataset; closing *that* twice is
            # netCDF4-python's own (unguarded) nc_close, not library code
            obs['note'] = 'noop-raw-handle-already-closed'
        else:
            try:
                s.obj.close()
                obs['note'] = 'ok'
            except Exception as e:
                obs['note'] = 'raised:' + type(e).__name__
            s.closes += 1
            if s.kind not in ('mem',):
                if s.life == 'closed':
                    w.probe('closed_twice')
                s.life = 'closed'
            w.fault('close')
            _life_event(st, s)
    elif o == 'drop':
        s = st.slots.get(op['slot'])
        if s is None or s.life == 'dropped':
            obs['note'] = 'noop'
        else:
            was = s.life
            s.life = 'dropped'
            s.obj = None
            s.model = None
            obs['note'] = 'dropped-' + was
            w.fault('drop_reference')
            if was == 'closed':
                w.probe('dropped_after_close')
            _life_event(st, s)
    elif o == 'collect':
        n = seams.GC.collect(op.get('gen', 2))
        obs['unreachable'] = n
        w.fault('gc_between')
        if n:
            w.probe('gc_between_collected_something')
        st.last_life_step = w.step
    elif o == 'gc_inside':
        st.armed = op['k']
        obs['armed'] = op['k']
    elif o == 'clock_jump':
        seams.CLOCK.jump(op['seconds'])
        w.fault('clock_jump')
        obs['t'] = seams.CLOCK.offset
    elif o in ('xform', 'query'):
        s = st.slots.get(op['slot'])
        if s is None or s.life != 'open' or s.kind == 'saved':
            obs['note'] = 'noop'
        else:
            touched = (s.id,) + tuple(
                i for i in ([op['other']] if isinstance(op.get('other'), int)
                            else (op.get('other') or [])))
            if armed is not None:
                seams.GC.arm_inside(armed)
            try:
                if o == 'xform':
                    ns, note = _do_xform(st, s, op)
                    obs['note'] = note
                    if ns is not None:
                        obs['slot'] = ns.id
                else:
                    ns = None
                    val = _do_query(st, s, op)
                    obs['note'] = 'ok'
                    obs['val'] = hashlib.md5(repr(val).encode()).hexdigest()[:12]
            except (Violation, HarnessError):
                raise
            except MemoryError:
                raise
            except (Exception, SystemExit) as e:   # pncdump calls exit()
                ns = None
                val = None
                obs['note'] = 'raised:' + type(e).__name__
                _count_raise(st, op['name'], e)
            finally:
                if armed is not None:
                    calls, fired = seams.GC.disarm()
                    obs['libcalls'] = calls
                    if fired:
                        w.fault('gc_inside')
            if st.last_life_step is not None:
                st.stats['nontrivial'] = True
            # invariant 4: repeating the query on the unchanged slot gives the
            # same answer
            if o == 'query' and obs['note'] == 'ok' and op['name'] not in ('save',):
                try:
                    val2 = _do_query(st, s, op)
                except (Exception, SystemExit) as e:
                    val2 = ('raised', type(e).__name__)
                if val2 != val:
                    raise Violation(
                        'query-not-repeatable',
                        '%s on slot %d (%s) answered differently the second '
                        'time: %s -> %s' % (op['name'], s.id, _kindsig(s),
                                            str(val)[:300], str(val2)[:300]),
                        sig={'op': op['name']})
            if o == 'xform' and ns is not None and ns.kind == 'view':
                pass
            elif o == 'xform' and ns is not None:
                m = _snap(st, ns)
                if isinstance(m, Exception):
                    # result not well-formed/readable: C01's business, not C05's
                    ns.life = 'dropped'
                    ns.obj = None
                    obs['note'] = 'result-unreadable:' + type(m).__name__
                else:
                    ns.model = m
                    obs['digest'] = snapshot.digest(m)
            if o == 'query' and op['name'] == 'save' and obs['note'] == 'ok':
                for x in st.slots.values():
                    if x.via == 'save' and x.model is None and x.life == 'open' \
                            and hasattr(x.obj, 'variables'):
                        m = _snap(st, x)
                        if isinstance(m, Exception):
                            x.life = 'dropped'
                            x.obj = None
                        else:
                            x.model = m
    elif o == 'write':
        s = st.slots.get(op['slot'])
        if s is None or s.life != 'open' or not s.writable:
            obs['note'] = 'noop'
        else:
            try:
                v = s.obj.variables[op['var']]
                if op['how'] == 'all':
                    v[...] = op['value']
                elif op['how'] == 'slice0' and v.ndim >= 1:
                    v[0] = op['value']
                else:
                    if v.ndim == 0:
                        v[...] = op['value']
                    else:
                        idx = np.unravel_index(op['flat'] % max(1, v.size), v.shape)
                        v[idx] = op['value']
                obs['note'] = 'ok'
                st.stats['writes'] += 1
                w.probe('write_into_result' if s.src else 'write_into_root')
            except (KeyError, IndexError, ValueError, TypeError) as e:
                obs['note'] = 'raised:' + type(e).__name__
            except RuntimeError as e:
                if 'NetCDF' in str(e) and s.kind == 'mem' and s.src:
                    # an in-memory result refused the write with a netCDF library error:
                    # the variable is a disk file's own variable handed through
                    raise Violation('result-aliases-other-file',
                                    'writing into %s of slot %d (in-memory result made by %s) '
                                    'raised %s: the variable belongs to a disk-backed input' % (
                                        op['var'], s.id, s.via, e),
                                    sig={'field': 'var-is-disk-variable', 'via': s.via})
                raise
            wrote = s.id
            m = _snap(st, s)
            if isinstance(m, Exception):
                raise HarnessError('written slot unreadable %r' % m)
            s.model = m
            st.stats['nontrivial'] = True
    else:
        raise HarnessError('unknown op %r' % (op,))
    check_all(st, op, touched=touched, wrote=wrote)
    w.abstract(op.get('name') or o,
               (st.slots[op['slot']].kind if op.get('slot') in st.slots else '-'),
               _lifevec(st), 'gc' if armed is not None else '-')
    obs['life'] = _lifevec(st)
    obs['clock'] = seams.CLOCK.offset
    return obs


def _life_event(st, s):
    st.last_life_step = st.w.step
    others = [x for x in st.slots.values()
              if x.id != s.id and x.life == 'open' and x.kind != 'mem']
    if others:
        st.stats['lifecycle_between_related'] += 1


def _count_raise(st, name, e):
    k = '%s:%s' % (name, type(e).__name__)
    st.stats['raised'][k] = st.stats['raised'].get(k, 0) + 1


def finish(st):
    # end of run: drop everything that was closed, collect, and check that the
    # remaining open files are still valid (finalisers run now)
    for s in list(st.slots.values()):
        if s.life == 'closed':
            s.life = 'dropped'
            s.obj = None
    seams.GC.collect(2)
    check_all(st, {'op': 'final_collect'})
    # leak detector for the clock seam
    for s in st.slots.values():
        if s.life == 'open' and s.obj is not None and s.ioapi:
            for k in ('CDATE', 'WDATE'):
                v = getattr(s.obj, k, None)
                if v is not None and seams.clock_leak_check(v):
                    raise HarnessError('real clock leaked into %s=%s' % (k, v))


def stats(st):
    return st.stats


def simplify_op(op):
    """argument-level shrinking candidates"""
    out = []
    if op.get('op') == 'gc_inside' and op['k'] > 1:
        out.append(dict(op, k=1))
    if op.get('op') == 'clock_jump' and op['seconds'] != 1:
        out.append(dict(op, seconds=1))
    if op.get('op') == 'collect' and op.get('gen') != 2:
        out.append(dict(op, gen=2))
    if op.get('op') == 'open' and op.get('how') != 'explicit':
        out.append(dict(op, how='explicit'))
    return out
