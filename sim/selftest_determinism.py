"""Determinism self-test: one seed = one exactly repeatable execution.

For every harness: N seeds, each executed under two PYTHONHASHSEED values, at
worker counts 1, 4 and 16 (different zygote processes, different load), and
the event-log digests must agree pairwise for equal (seed, hashseed).

    /venv/bin/python -m sim.selftest_determinism [N] [prop ...]
exit 0 = no mismatch; exit 2 = nondeterminism (listed).
"""
import json
import os
import sys
import time

sys.path.insert(0, os.path.dirname(os.path.dirname(os.path.abspath(__file__))))

from sim.core import batch  # noqa: E402
from sim.props import PROPS  # noqa: E402


def main():
    args = sys.argv[1:]
    n = int(args[0]) if args and args[0].isdigit() else 60
    props = [a for a in args if not a.isdigit()] or sorted(PROPS)
    hss = [0, 4242]
    bad = []
    report = {}
    t0 = time.monotonic()
    for prop in props:
        spec = PROPS[prop]
        seeds = batch.run_seeds(987654321, n, prop)
        digests = {}
        for workers in (1, 4, 16):
            jobs = []
            for i, s in enumerate(seeds if workers > 1 else seeds[:max(6, n // 6)]):
                for hs in hss:
                    jobs.append({'id': len(jobs), 'harness': spec['harness'], 'seed': s,
                                 'tier': 'quick', 'hashseed': hs, 'cpu_s': spec.get('cpu_s', 120),
                                 'wall_s': spec.get('wall_s', 600),
                                 'config_override': dict(spec.get('config', {}), prop=prop)})
            pool = batch.Pool(max(workers, len(hss)) if workers > 1 else 2, hss)
            try:
                res = pool.map(jobs)
            finally:
                pool.close()
            for r in res:
                key = (r['seed'], r['hashseed'])
                d = (r.get('status'), r.get('digest'),
                     json.dumps((r.get('violation') or {}).get('sig'), sort_keys=True))
                if key in digests and digests[key] != d:
                    bad.append((prop, key, digests[key], d, workers))
                digests.setdefault(key, d)
        report[prop] = {'pairs': len(digests), 'mismatches': sum(1 for b in bad if b[0] == prop)}
        print('%s: %d (seed, hashseed) pairs x worker counts 1/4/16: %d mismatches' % (
            prop, len(digests), report[prop]['mismatches']), flush=True)
    for b in bad[:20]:
        print('MISMATCH', b)
    out = os.path.join(batch.VERIF, 'evidence', 'determinism_selftest.json')
    with open(out, 'w') as f:
        json.dump({'seeds_per_harness': n, 'hashseeds': hss, 'worker_counts': [1, 4, 16],
                   'report': report, 'wall_s': round(time.monotonic() - t0, 1)}, f, indent=1)
    return 2 if bad else 0


if __name__ == '__main__':
    sys.exit(main())
