#!/usr/bin/env python3
"""tools/eval_seeded.py <change_dir> <seeded_id> <property> [check ids...]
Confirms a seeded change (demo passes on clean code, fails with the patch, the
existing test suite's passing set is unchanged), runs the given checks against
a scratch copy with the patch applied, and records everything in
/verif/seeded/<seeded_id>/ (patch.diff, demo.py, notes.md, meta.json)."""
import json, os, re, shutil, subprocess, sys, tempfile, xml.etree.ElementTree as ET

src, sid, prop = sys.argv[1], sys.argv[2], sys.argv[3]
checks = sys.argv[4:] or [prop]
VERIF = os.path.dirname(os.path.dirname(os.path.abspath(__file__)))
dst = os.path.join(VERIF, 'seeded', sid)
os.makedirs(dst, exist_ok=True)
for fn in ('patch.diff', 'demo.py', 'notes.md'):
    if os.path.realpath(src) != os.path.realpath(dst) and os.path.exists(os.path.join(src, fn)):
        shutil.copyfile(os.path.join(src, fn), os.path.join(dst, fn))
PY = '/venv/bin/python'


def sh(cmd, cwd=None, env=None, timeout=1800):
    p = subprocess.run(cmd, shell=True, cwd=cwd, env=env, stdout=subprocess.PIPE,
                       stderr=subprocess.STDOUT, text=True, timeout=timeout)
    return p.returncode, p.stdout


def suite(root):
    x = os.path.join(root, 'junit.xml')
    env = dict(os.environ, PYTHONPATH=os.path.join(root, 'src'))
    sh('%s -m pytest -q -p no:cacheprovider --timeout=900 --continue-on-collection-errors '
       '--junitxml=%s' % (PY, x), cwd=root, env=env)
    res = set()
    for tc in ET.parse(x).iter('testcase'):
        if not any(c.tag in ('failure', 'error', 'skipped') for c in tc):
            res.add(tc.get('classname') + '::' + tc.get('name'))
    return res


d = tempfile.mkdtemp(prefix='pncseed.')
meta = {'id': sid, 'property': prop, 'source': 'independent sub-agent given only the property text'}
try:
    root = os.path.join(d, 'repo')
    os.makedirs(root)
    sh('git -C /repo archive HEAD | tar -x -C %s' % root)
    env = dict(os.environ, PYTHONPATH=os.path.join(root, 'src'))
    rc0, out0 = sh('%s -W ignore %s' % (PY, os.path.join(dst, 'demo.py')), cwd=d, env=env)
    base = suite(root)
    rc, out = sh('git init -q . && git apply --whitespace=nowarn %s' % os.path.join(dst, 'patch.diff'), cwd=root)
    meta['patch_applies'] = rc == 0
    if rc != 0:
        meta['apply_output'] = out[-500:]
    rc1, out1 = sh('%s -W ignore %s' % (PY, os.path.join(dst, 'demo.py')), cwd=d, env=env)
    mut = suite(root)
    meta['demo_exit_clean'] = rc0
    meta['demo_exit_patched'] = rc1
    meta['demo_tail_patched'] = out1[-400:]
    meta['tests_passing_clean'] = len(base)
    meta['tests_passing_patched'] = len(mut)
    meta['tests_lost'] = sorted(base - mut)
    meta['confirmed'] = bool(meta['patch_applies'] and rc0 == 0 and rc1 != 0 and not (base - mut))
    meta['ran'] = ['demo.py on a clean export of HEAD and on the patched copy',
                   'pytest (baseline command) on both; compared sets of passing tests']
    det = {}
    for c in checks:
        env2 = dict(os.environ, PNC_REPO_SRC=os.path.join(root, 'src'))
        rc, out = sh('%s/check %s --tier quick --no-evidence' % (VERIF, c), env=env2, timeout=3600)
        lines = [l for l in out.splitlines() if re.search(r'VIOLATION|violation class|HARNESS-ERROR', l)]
        summ = [l for l in out.splitlines() if l.startswith(c + ':')]
        det[c] = {'exit': rc, 'detected': rc == 1, 'lines': [l[:300] for l in lines[:8]],
                  'summary': summ[-1][:300] if summ else ''}
    meta['checks'] = det
    meta['detected_by'] = [c for c in det if det[c]['detected']]
finally:
    shutil.rmtree(d, ignore_errors=True)
if os.path.exists(os.path.join(dst, 'notes.md')):
    meta['needs_to_manifest'] = open(os.path.join(dst, 'notes.md')).read()[:1500]
json.dump(meta, open(os.path.join(dst, 'meta.json'), 'w'), indent=1)
print(json.dumps({k: meta[k] for k in ('id', 'confirmed', 'demo_exit_clean', 'demo_exit_patched',
                                      'tests_lost', 'detected_by')}, indent=0))
for c in meta['checks']:
    print(c, meta['checks'][c]['exit'], meta['checks'][c]['summary'])
    for l in meta['checks'][c]['lines'][:4]:
        print('   ', l[:220])
