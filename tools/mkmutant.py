#!/usr/bin/env python3
"""tools/mkmutant.py NAME REPO_RELATIVE_FILE  < spec
spec on stdin:  OLD text, a line '=====', NEW text.  OLD must occur exactly
once.  Writes mutants/NAME.diff (git-apply compatible, relative to /repo)."""
import difflib, os, sys
name, rel = sys.argv[1], sys.argv[2]
spec = sys.stdin.read()
old, new = spec.split('\n=====\n')
new = new.rstrip('\n') + '\n' if new.strip() else ''
old = old if old.endswith('\n') else old + '\n'
src = open(os.path.join('/repo', rel)).read()
assert src.count(old) == 1, 'OLD occurs %d times' % src.count(old)
dst = src.replace(old, new)
d = ''.join(difflib.unified_diff(src.splitlines(True), dst.splitlines(True), 'a/' + rel, 'b/' + rel))
out = os.path.join(os.path.dirname(os.path.dirname(os.path.abspath(__file__))), 'mutants', name + '.diff')
mode = 'a' if os.path.exists(out) and '--append' in sys.argv else 'w'
open(out, mode).write(d)
print('wrote', out)
