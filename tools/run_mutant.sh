#!/bin/sh
# usage: tools/run_mutant.sh <patch.diff> <ID> [<ID> ...] [-- extra check args]
# Applies a patch to a scratch copy of /repo/src (outside /repo and /verif),
# runs the given checks against it without touching evidence files, removes
# the copy.  Exit status: 0 if every check stayed quiet, 1 if some check
# reported a VIOLATION (= the mutant was detected).
set -u
patch=$(realpath "$1"); shift
ids=""
while [ $# -gt 0 ] && [ "$1" != "--" ]; do ids="$ids $1"; shift; done
[ $# -gt 0 ] && shift
d=$(mktemp -d /tmp/pncmut.XXXXXX)
trap 'cd /; rm -rf "$d"' EXIT INT TERM
mkdir -p "$d/repo"
git -C /repo archive HEAD | tar -x -C "$d/repo"
( cd "$d/repo" && git init -q . >/dev/null 2>&1; git -C "$d/repo" apply --whitespace=nowarn "$patch" ) || { echo "patch does not apply"; exit 3; }
det=0
for id in $ids; do
  echo "== $id against $(basename "$patch")"
  PNC_REPO_SRC="$d/repo/src" /verif/check "$id" --no-evidence "$@" 2>&1 | grep -E "VIOLATION|KNOWN-FINDING|HARNESS-ERROR|^$id:" | cut -c1-300
  if PNC_REPO_SRC="$d/repo/src" true; then :; fi
done
