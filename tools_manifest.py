#!/usr/bin/env python3
"""Regenerates MANIFEST.json from sim/props.py (claimed checks) and the
not-applicable table below; validates it if jsonschema is available."""
import json, os, sys
sys.path.insert(0, os.path.dirname(os.path.abspath(__file__)))
from sim.props import PROPS, MANIFEST_TEXT, NOT_APPLICABLE, PENDING

BASE = json.load(open('/root/.vp/BASELINE.json'))['cmd'] if os.path.exists('/root/.vp/BASELINE.json') else \
    'cd /repo && /venv/bin/python -m pytest -ra -q -p no:cacheprovider --timeout=900 --continue-on-collection-errors --junitxml=<file>'
m = {
 'version': 1,
 'setup_cmd': './setup.sh',
 'hooks': {'guard': 'PNC_VERIF',
           'enable': 'none needed: every seam (clock, GC trigger, hash seed, resource limits, acknowledgement image) is applied from /verif at run time by monkeypatch before PseudoNetCDF is imported; /repo has no hook commits',
           'baseline_off_cmd': BASE, 'source_commits': [], 'add_only': True},
 'engines': [{'name': 'sim', 'path': 'sim/', 'serves_properties': sorted(PROPS),
              'kind_free_text': 'deterministic simulation with fault injection: seeded scheduler over forked pristine children of a zygote that owns clock/GC/hash-seed seams; ddmin-minimised replay files'}],
 'checks': [],
 'not_applicable': [],
 'notes': 'Genuine defects found by the checks were repaired in /repo by "fix:" commits and are recorded in known_findings.json as fixed (they suppress nothing). See DESIGN.md.'
}
for pid in sorted(PROPS):
    s = PROPS[pid]
    t = MANIFEST_TEXT[pid]
    m['checks'].append({
        'property_id': pid,
        'quick_cmd': './check %s --tier quick' % pid,
        'thorough_cmd': './check %s --tier thorough' % pid,
        'evidence_file': 'evidence/%s.json' % pid,
        'replay_cmd_template': './check %s --replay {path}' % pid,
        'engine': 'sim',
        'level_claimed': {'category': s['level'], 'text': t['text'], 'design_ref': t['design_ref']},
        'level_note': t['note'],
        'technique': t['technique'],
    })
for pid, reason in sorted(list(NOT_APPLICABLE.items()) + [(k, v) for k, v in PENDING.items() if k not in PROPS]):
    m['not_applicable'].append({'property_id': pid, 'reason': reason})
json.dump(m, open(os.path.join(os.path.dirname(os.path.abspath(__file__)), 'MANIFEST.json'), 'w'), indent=1)
try:
    import jsonschema
    jsonschema.validate(m, json.load(open('/root/.vp/MANIFEST.schema.json')))
    print('MANIFEST.json valid;', len(m['checks']), 'checks,', len(m['not_applicable']), 'not applicable')
except ImportError:
    print('MANIFEST.json written (jsonschema not available to validate)')
